#!/bin/bash
# Builds the simulation binary from /repo's current working tree with hooks on.
# (VERIF_REPO / VERIF_BIN let the mutant runner build against a scratch worktree
# into a separate binary; the registered checks never set them.)
set -e
export GOFLAGS=-mod=mod GOPROXY=off GOSUMDB=off GOTOOLCHAIN=local
REPO="${VERIF_REPO:-/repo}"
BIN="${VERIF_BIN:-/verif/bin/sim.test}"
cd /verif/sim
mkdir -p "$(dirname "$BIN")"
if [ "$REPO" = "/repo" ]; then
  cp /repo/go.sum . 2>/dev/null || true
  go1.26.8 test -c -tags verif -o "$BIN" .
else
  tag=$(echo "$REPO" | tr -c 'A-Za-z0-9' '_')
  sed "s#=> /repo#=> $REPO#" go.mod > go.alt$tag.mod
  cp "$REPO/go.sum" go.alt$tag.sum
  go1.26.8 test -c -tags verif -modfile=go.alt$tag.mod -o "$BIN" .
  rm -f go.alt$tag.mod go.alt$tag.sum
fi
