#!/bin/bash
# Builds the simulation binary from /repo's current working tree with hooks on.
set -e
export GOFLAGS=-mod=mod GOPROXY=off GOSUMDB=off GOTOOLCHAIN=local
cd /verif/sim
cp /repo/go.sum . 2>/dev/null || true
mkdir -p /verif/bin
go1.26.8 test -c -tags verif -o /verif/bin/sim.test . 
