#!/usr/bin/env python3
"""Regenerates /verif/MANIFEST.json from the table below (run after adding a check)."""
import json, subprocess

NA_PURE = {
    "C18": "pure function of (entries, table options): no schedule, clock, fault or interleaving for a simulator to control; needs input generation, which this technique family is not",
    "C19": "pure function of key hashes and filter size (its end-to-end consequence is exercised by C01/C05 runs with randomised BloomFalsePositive but not claimed)",
    "C20": "pure encode/decode functions of their inputs; nothing to schedule or fault",
    "C21": "pure function of the input iterators; nothing to schedule or fault",
    "C28": "input/configuration arithmetic in Txn.modify/checkSize/sendToWriteCh; no interleaving, clock or fault in it",
}

# property -> (level, technique, level text, note, design ref)
CHECKS = {
    "C01": ("exploration", "deterministic simulation: seeded scheduler over vhook points + MVCC reference model",
            "Seeded search over (options x client scripts x schedules): every Get / iterator item of every transaction is compared with an MVCC reference model at the transaction's read timestamp while commits, memtable rotation and flushes are interleaved at schedule points. Evidence for the sampled cases, not a proof.",
            "Trusts the vhook commitTs/commitFailed events for the model's timestamps (cross-checked against Item.Version of every read) and the synctest fake clock.", "3/C01"),
    "C02": ("exploration", "deterministic simulation + conflict oracle computed from the reference model",
            "For every Commit of a read-write transaction the harness decides from the model whether a commit in (readTs, bound) wrote a key it read: ErrConflict iff a witness exists (soundness and completeness), with long-running transactions outliving conflict-log cleanup.",
            "Read set is tracked by the harness exactly as the property lists it (Get outside own writes, iterator Item, Seek key). Fingerprint collisions are not generated (short ASCII keys).", "3/C02"),
    "C03": ("exploration", "deterministic simulation with readers scheduled into every commit gap",
            "Schedule points after ts allocation, enqueue, apply and doneCommit let readers start in every gap; oracles: unique increasing commit ts, begin-after-ack visibility, no begin at a ts with a commit still in flight, all-or-nothing visibility through model equality, failed commits invisible.",
            "Order of issue = order of timestamp allocation as reported by the commitTs event.", "3/C03"),
    "C04": ("exploration", "deterministic simulation + pending-write overlay model",
            "Get and iterators inside read-write transactions are compared with the overlay of the transaction's pending writes over the MVCC model at readTs (forward/reverse/prefix/seek/SinceTs/AllVersions); other clients' reads are compared with the committed model only.",
            "Versions of pending-write items are not compared (code documents readTs).", "3/C04"),
}

CHECKS.update({
    "C08": ("fault_enumeration", "deterministic simulation + exhaustive kill-9 images at every persistence event, recovered by the real Open",
            "For each generated short history every persistence event (mmap create/write/msync/truncate/delete, fd write/fsync/rename/remove, directory sync) is a crash point: the directory as the page cache holds it is copied, re-opened with the real code and compared with the reference model (Open succeeds, nothing that was never written, visible state is a commit-order prefix containing every acknowledged commit, structure, new commits get higher timestamps). Exhaustive over the events of each history; histories are sampled.",
            "Kill model: page cache survives. mmap stores are reported at record granularity by vhook.IO lines next to the memcpy; a crash inside one memcpy is covered by the torn-tail check C09.", "3/C08"),
})

CHECKS.update({
    "C05": ("exploration", "deterministic simulation + iterator sequence model over layouts produced by real flushes/compactions",
            "Iterator-heavy scripts over keys that nest and contain 0x00/0xff, on data spread over memtables, L0 and deeper levels by real flush and compaction steps under the scheduler; the exact item sequence (or, for AllVersions under compaction, subsequence-of-written plus the retention lower bound) is compared with the model for every option combination drawn.",
            "InternalAccess/!badger! keys are not generated (no internal keys live in the LSM tree in this version). Reverse+Prefix follows the documented Seek(prefix)/Valid semantics; seeks are generated inside the prefix.", "3/C05"),
    "C06": ("exploration", "deterministic simulation, value sizes around the static/dynamic threshold, all read paths",
            "Every read path compares value bytes, user meta, expiry, version and discard-earlier flag with the write, with sizes around the static threshold and the VLogPercentile-driven threshold while its listener goroutine runs, under compression/encryption/cache swarm.", "Dynamic threshold changes depend on the histogram the workload produces; probe counts are reported.", "3/C06"),
    "C12": ("exploration", "deterministic simulation with real compactor goroutines, clock jumps and a never-forgetting model",
            "2-4 real compactor goroutines (production pickers) scheduled phase by phase against clients, with tiny tables/levels, L0 stalls, split sub-compactions and seeded clock jumps ageing tables; every read of long-running and fresh transactions must equal the MVCC model, which never discards: nothing lost, nothing resurrected.",
            "Lmax->Lmax rewrites need >=10 MiB of stale data per table and are not reached (probe reported at zero); L0->L0 needs >=4 aged idle L0 tables and is rare.", "3/C12"),
    "C13": ("exploration", "deterministic simulation + retention lower bound computed from observed discard watermarks",
            "AllVersions/NewKeyIterator results under real compactions must be a subsequence of the written versions and contain every version above the highest discard watermark any compaction used, plus at or below it the newest NumVersionsToKeep per key cut at the first delete/expired/discard-earlier entry.",
            "The watermark is learned from a vhook event inside subcompact (the value the code actually used). Merge entries are covered by C31.", "3/C13"),
    "C33": ("exploration", "deterministic simulation with the clock crossing expiry times",
            "TTL entries, deletes and non-expiring overwrites with seeded clock jumps across expiry while transactions are open, before/after flush and compaction; Get and iterators equal the model evaluated at the simulated time of the read.",
            "Stream/Backup read paths are exercised by C24/C25, not here.", "3/C33"),
    "C34": ("exploration", "deterministic simulation with dense points in the oracle and both watermark goroutines + step invariants",
            "Invariants evaluated on the event trace while 2-5 clients commit and begin: no transaction starts at a timestamp with a commit at or below it in flight; a watermark advance never covers an index that was begun and not done in the prefix of marks consumed; every waiter is released (deadlock detector).",
            "Watermark invariant is stated over the prefix of marks the process goroutine has consumed (a Begin issued later re-begins an index the mark may already cover).", "3/C34"),
})

CHECKS.update({
    "C09": ("fault_enumeration", "deterministic simulation + torn-append synthesis at every byte of the last record, recovered by the real Open",
            "Right after WAL, value-log and MANIFEST appends of generated histories the record just written is cut at every byte (short records) or at boundaries plus sampled interior offsets, with the remainder zero-filled or the file ending at the cut; every image is re-opened with the real code and must give a commit prefix with every acknowledged commit and no value that was never written.",
            "Tearing is modelled at byte granularity on the record reported next to the memcpy/write; encrypted and plain logs. One known finding (zero-filled MANIFEST tail) is listed in known_findings.jsonl.", "3/C09"),
    "C10": ("fault_enumeration", "deterministic simulation + durable-state tracker (msync/fsync/dir-fsync) building power-loss images at every persistence event",
            "With SyncWrites every persistence event of each history is a power-loss point: the image contains only directory entries covered by a directory fsync, each file with the content of its last msync/fsync; it is re-opened with the real code and must contain every commit whose Commit returned nil, as a commit-order prefix.",
            "Strict model as the property states it. mmap-file syncs are observed inside the instrumented ristretto copy (tied to the real call); MANIFEST append fsync through the syncFunc seam; other fd syncs by vhook lines next to the call. One defect found and fixed (see known_findings.jsonl).", "3/C10"),
})

CHECKS.update({
    "C07": ("exploration", "deterministic simulation of histories followed by scheduled close / read-only open / re-open cycles with file hashing",
            "After generated histories (with flushes and, mostly, real compactions) the closer client dumps everything, closes, hashes every file, opens read-only and dumps, hashes again, re-opens read-write with other compaction settings and dumps: visible state identical and equal to the model, versions only shrink, the read-only session touches no file.",
            "Close/Open run under the same scheduler (their flushes and CompactL0OnClose are schedule points). Found and fixed one defect (see known_findings.jsonl).", "3/C07"),
    "C11": ("exploration", "deterministic simulation: commits after clean re-opens and after every recovered crash image",
            "After every clean close/re-open cycle and after every recovered kill / torn / power-loss image (C08/C09/C10 share the oracle) new commits on an existing and a new key must be visible and carry a version above every stored version.",
            "Load / StreamWriter.Flush / DropAll variants of the statement are checked by the C24/C26/C29 scenarios once those are claimed.", "3/C11"),
    "C14": ("exploration", "deterministic simulation + structural check after re-opens and after every recovered crash image",
            "After every re-open cycle and every recovered crash image: .sst files on disk equal the MANIFEST/levels table set, every level >= 1 is sorted and disjoint on user keys, Open's own validation passes; histories include concurrent compactors on adjacent ranges.",
            "File-set equality is compared only at quiescent points (after Open settled), as tables under construction legitimately exist in between.", "3/C14"),
})

CHECKS.update({
    "C27": ("exploration", "deterministic simulation of WriteBatch splits through the scheduled commit pipeline",
            "WriteBatch ops with repeated keys and sizes that force internal splits run concurrently with ordinary transactions; after Flush()==nil every key of the batch must have been committed and the newest committed entry per key must be the last op issued; later reads go through the snapshot oracle.",
            "Normal mode (NewWriteBatch); managed constructors are exercised by the C36 scenario. A Flush that returns ErrTxnTooBig makes no claim (observed; it is C28's subject).", "3/C27"),
    "C30": ("exploration", "deterministic simulation of concurrent Sequence lessees",
            "Several Sequence objects on shared keys with Next/Release/re-lease interleaved step by step: every number returned for a key is new and increasing per object. Found and fixed one defect (see known_findings.jsonl).",
            "DetectConflicts is on (lessees are arbitrated by transaction conflicts). Restarts/crashes in between are not yet part of this scenario.", "3/C30"),
    "C31": ("exploration", "deterministic simulation with the merge operator's own compaction, flushes and LSM compactions as scheduled actors",
            "Add/Get on shared merge keys with an associative, non-commutative merge function while the operator's ticker-driven compaction, flushes and real compactions run: Get equals the concatenation in commit order of a prefix of the Adds containing every completed Add; ErrKeyNotFound only before the first Add.",
            "Whole-database dumps are skipped in this scenario (merge write-backs reuse the version of a merge entry).", "3/C31"),
    "C32": ("exploration", "deterministic simulation with publisher and subscriber goroutines scheduled",
            "Subscribers with prefix and ignore-byte patterns while clients commit: every matching write of commits allocated after registration and acknowledged before unsubscribe is received exactly once, in commit order, with the committed content, and nothing for keys matching no pattern. Found and fixed one defect (see known_findings.jsonl).",
            "Cancellation is issued only while the subscriber is idle in its select (a cancel racing a pending batch is a runtime select choice that cannot be replayed).", "3/C32"),
})

CHECKS.update({
    "C36": ("exploration", "deterministic simulation of managed mode with caller-chosen, non-monotonic timestamps and real compactors",
            "Transactions at arbitrary read timestamps, CommitAt with arbitrary distinct timestamps, managed write batches with per-entry versions and SetDiscardTs movement run against real compactors; every read at or above the discard timestamp must return the newest acknowledged write at or below its timestamp (in-flight commits optional) with the caller's version; at quiescence all keys are re-read at seven timestamps.",
            "Commit timestamps and per-entry versions are drawn above the range used for SetDiscardTs (committing below the discard timestamp is a caller error that the oracle asserts on). One known finding (process abort of NewManagedWriteBatch after SetDiscardTs with conflict detection on) is probed from a recorded case; one defect found and fixed.", "3/C36"),
})

CHECKS.update({
    "C15": ("exploration", "deterministic simulation with value-log GC phases, compactors and readers as scheduled actors",
            "RunValueLogGC with schedule points after the pick, at every scanned entry, after the scan, per write-back batch and around file deletion, against commits, deletes, iterators, real compactions and transactions that hold Items from Get or open iterators: every read equals the never-forgetting model, held items keep yielding the written value. Two genuine defects are recorded as known findings (see known_findings.jsonl).",
            "Known findings are recognised by a cause tag computed from the event trace (GC write-back of a version whose delete marker a compaction discarded; Get item after its vlog file was deleted); any other cause of the same symptom is still reported.", "3/C15"),
    "C29": ("exploration", "deterministic simulation of DropPrefix/DropAll against concurrent writers and real compactors",
            "Drops over data in memtables, L0, deeper levels and value log with concurrent writers: right after a drop nothing under the prefixes is visible unless written afterwards, concurrent commits fail with the blocked-writes error or apply wholly, all other keys keep equalling the model, also across the final close. Found and fixed one defect (see known_findings.jsonl).",
            "Reads of dropped ranges by transactions overlapping a drop are not compared (documented as unsafe). Crash images inside a drop are taken by the C08 machinery only in its own scenario, not here.", "3/C29"),
})

CHECKS.update({
    "C37": ("exploration", "deterministic simulation on an InMemory DB + differential run against the on-disk DB + persistence-event tracker",
            "Generated histories (transactions, batches, and in half of the cases real compactors and drops) run on an InMemory database under the same model oracles, with the mmap/fd/dir event tracker installed (any event or file is a violation); the first client's script is additionally run sequentially on disk and in memory and every result line must be identical.",
            "Values are kept within the in-memory limit (the value threshold), as the property states. The differential part uses one client so that results do not depend on the schedule.", "3/C37"),
})

CHECKS.update({
    "C38": ("exploration", "deterministic simulation with stall-prone settings, every public call as a scheduled actor, deadlock detector + step budget + watchdog",
            "3-5 clients mix all public calls (commits, CommitWith, reads, iterators, WriteBatch, RunValueLogGC, DropAll, DropPrefix, Flatten, Subscribe/cancel) against real compactors with writers stalling on a full L0 / memtable queue, and Close starts with commit callbacks still in flight: no state may be reached in which nothing is runnable and simulated time changes nothing, every call returns within the step budget, every callback runs.",
            "Liveness is bounded: fairness forcing after 24 skipped turns, 200k-step budget. A process abort inside a run is turned into a replayable violation. One known finding (Flatten concurrent with DropPrefix segfaults) is probed from a recorded case and not generated; items/iterators are not held across drops (documented as unsafe).", "3/C38"),
})

CHECKS.update({
    "C22": ("exploration", "deterministic simulation of the lock-free skiplist at CAS granularity + porcupine linearizability check",
            "Writers and readers on one real skl.Skiplist with a schedule point before every CAS/setValue of Put: the Put/Get history is checked for linearizability per user key with porcupine against a sorted-map model, every iteration for order, no duplicates, no torn values and inclusion of every completed Put, the final content for last-writer consistency.",
            "Histories are short (<=50 operations) so that the linearizability check stays tractable; an inconclusive (timed out) check is counted, never reported.", "3/C22"),
})

CHECKS.update({
    "C17": ("fault_enumeration", "deterministic simulation of concurrent change sets through the real MANIFEST code + exhaustive byte cuts and bit flips of the last records",
            "Generated change-set histories (creates, deletes, deletes of unknown tables, levels, key ids, compression, rewrite thresholds that trigger automatic rewrites) go through the production addChanges from several goroutines; replay must equal the model; then the file is cut at every byte and one bit is flipped at every byte of the last change sets: a cut yields exactly the state after the last complete set, a flip is an error or a complete-set prefix state, never anything else. One defect found and fixed.",
            "Exhaustive over the bytes of the last <=4 change sets of each history; histories are sampled. The MANIFEST code runs without a DB around it (tag-guarded accessor).", "3/C17"),
})

CHECKS.update({
    "C16": ("fault_enumeration", "deterministic simulation producing real logs + production iterate over the image + exhaustive single-byte corruption of the log tails",
            "Histories produce a real WAL and value-log files (plain or encrypted); the production logFile.iterate over the imaged files must deliver exactly records equal to the model's writes (values directly or through value pointers), in transaction units and commit order; then one byte is flipped at every position of the last 160 bytes of every log and no altered record may be delivered, the delivery staying a prefix of the intact one.",
            "Exhaustive over the byte positions of each log tail; histories are sampled. Runs without Open's replay (tag-guarded accessor to iterate); Open-level recovery of damaged logs is C09.", "3/C16"),
})

CHECKS.update({
    "C35": ("exploration", "generated open/close orderings across two real processes checked against a lock-table model",
            "Sequences of read-write / read-only opens and closes by handles in this process and in a helper child process on shared and separate Dir/ValueDir layouts; a lock-table model decides for every Open whether it must succeed or fail, and every Close must release the lock.",
            "No simulated scheduler: the quantifier is over call orderings, which are generated and replayable; the child process is real (flock semantics come from the kernel).", "3/C35"),
})

CHECKS.update({
    "C25": ("exploration", "deterministic simulation: Stream producers as scheduled actors racing committers + single-snapshot oracle from the reference model",
            "Stream.Orchestrate runs (NumGo 1-4, Prefix, ChooseKey) over data spread over several tables while other clients commit multi-key transactions between producer start-ups and range hand-outs; the emitted multiset must equal the model's ToList at ONE timestamp between call and return, each (key,version) once, Send calls never overlapping.",
            "Any single snapshot timestamp between the call and the return of Orchestrate is accepted. SinceTs and custom KeyToList are not generated.", "3/C25"),
    "C24": ("exploration", "deterministic simulation: backup chains taken under concurrent scheduled commits, restored by the real Load and compared with the reference model",
            "Full and incremental Backup chains (each since the version the previous returned) with commits between and during backups; the chain is Loaded into a fresh database which must equal the source (value, user meta, expiry, version) as of a single timestamp between start and end of the last backup.",
            "NumVersionsToKeep=1 restore comparison (visible state); the restored database runs outside the scheduler after the run has quiesced.", "3/C24"),
})

CHECKS.update({
    "C26": ("exploration", "deterministic simulation: StreamWriter's per-stream writer and table-builder goroutines as scheduled actors + exact all-versions comparison with the streamed entries",
            "Generated sorted streams (nesting keys, several versions, values around the threshold, delete/discard/expiry bits) cut into Write calls of random size and interleaving, StreamDone markers, one or two writer clients, Prepare / PrepareIncremental rounds, compression/encryption/table-size swarm; after every Flush the all-versions scan equals exactly the streamed entries plus the earlier round, Get agrees, new transactions read and commit above every streamed version, and the close / read-only / re-open cycle shows the same contents and structure.",
            "No compactor runs in this scenario (exact equality of all versions would otherwise depend on retention). Incremental rounds stream versions above the existing ones.", "3/C26"),
})

CHECKS.update({
    "C23": ("exploration", "deterministic simulation of encrypted histories (data-key rotation driven by simulated clock jumps) + plaintext scan of every file, (key id, IV) uniqueness from hook reports, wrong-key and master-key-rotation re-opens",
            "Re-open-scenario histories with 16/24/32-byte master keys and data-key rotation intervals that the simulated clock exceeds; reads equal the MVCC model throughout (= the unencrypted results); every (data key id, IV) pair reported by the table builder and the log writer is new; after Close no user key >=8 bytes and no value marker occurs in any file; another key is refused with ErrEncryptionKeyMismatch and leaves all file hashes unchanged; after a master-key rotation done the way `badger rotate` does it the old key is refused and the data reads back unchanged.",
            "Plaintext needles are keys of >=8 bytes and the unique id marker of each value (shorter byte strings would match by chance). IV uniqueness is observed at the encryption call sites (tag-guarded event), not re-parsed from the files. The rotate command's own flag parsing is not run; its two exported calls are.", "3/C23"),
})

PENDING = {
}

def main():
    props = [json.loads(l) for l in open("/verif/properties.jsonl")]
    ids = [p["id"] for p in props]
    checks = []
    na = []
    for pid in ids:
        if pid in CHECKS:
            level, tech, text, note, ref = CHECKS[pid]
            checks.append({
                "property_id": pid,
                "quick_cmd": f"./check {pid} quick",
                "thorough_cmd": f"./check {pid} thorough",
                "evidence_file": f"/verif/evidence/{pid}.json",
                "replay_cmd_template": f"./check {pid} --replay {{path}}",
                "engine": "sim",
                "level_claimed": {"category": level, "text": text, "design_ref": "DESIGN.md §" + ref},
                "level_note": note,
                "technique": tech,
            })
        elif pid in NA_PURE:
            na.append({"property_id": pid, "reason": NA_PURE[pid]})
        else:
            na.append({"property_id": pid, "reason": PENDING.get(pid, "not claimed yet: its simulation scenario is not implemented in this revision (see DESIGN.md §3 for the plan)")})
    commits = subprocess.run(["git", "-C", "/repo", "log", "--format=%h %s", "d5f4fec..HEAD"], capture_output=True, text=True).stdout.strip().split("\n")
    hooks = [c.split()[0] for c in commits if c and "verif hooks" in c]
    m = {
        "version": 1,
        "setup_cmd": "./build.sh",
        "hooks": {
            "guard": "verif (Go build tag)",
            "enable": "go1.26.8 test -c -tags verif (see build.sh); harness module replaces github.com/dgraph-io/badger/v4 => /repo and ristretto => /verif/third_party/ristretto",
            "baseline_off_cmd": "cd /repo && go test -vet=off -count=1 -timeout 25m ./...",
            "source_commits": hooks,
            "add_only": True,
        },
        "engines": [{
            "name": "sim", "path": "/verif/sim",
            "serves_properties": sorted(CHECKS.keys()),
            "kind_free_text": "deterministic simulation: real badger code in a testing/synctest bubble, cooperative vhook schedule points, seeded scheduler (rapid v1.3.0 as the only choice source), reference models, JSON replay files",
        }],
        "checks": checks,
        "not_applicable": na,
        "notes": "Exit codes of every check: 0 held, 1 VIOLATION (replayed in a fresh process before it is printed), 2 build/watchdog/harness trouble. VERIF_SEED selects the seed, VERIF_BUDGET overrides the per-tier wall-clock budget.",
    }
    json.dump(m, open("/verif/MANIFEST.json", "w"), indent=1)
    print("checks:", len(checks), "not_applicable:", len(na))

if __name__ == "__main__":
    main()
