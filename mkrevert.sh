#!/bin/bash
# mkrevert.sh <fix-commit> <prop> <slug>: records the reverse of a "fix:" commit as a seeded change
# (a realistic regression: somebody undoes the repair). The demonstration is the recorded finding.
C=$1; PROP=$2; SLUG=$3
D=/verif/seeded/REV-$PROP-$SLUG
mkdir -p $D
git -C /repo diff $C $C^ > $D/patch.diff
cat > $D/meta.json <<EOM
{
  "id": "REV-$PROP-$SLUG",
  "property": "$PROP",
  "origin": "reverse of /repo commit $C ($(git -C /repo log --format=%s -1 $C | sed 's/"/\\"/g'))",
  "needs": "see the 'fixed:' line for $C in /verif/known_findings.jsonl: the history/schedule that exposed the defect originally",
  "demonstration": "the original violation recorded in known_findings.jsonl (found by the checks on the tree before the fix)",
  "ran": "./mutcheck.sh REV-$PROP-$SLUG $PROP <seeds>"
}
EOM
echo $D
