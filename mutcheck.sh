#!/bin/bash
# mutcheck.sh <seed-id> <prop> [seed...] : detection measurement for a kept seeded change.
# Builds the checks against a scratch worktree of /repo HEAD + seeded/<id>/patch.diff (never touches /repo),
# runs `./check <prop> quick` once per seed and prints caught/missed. Evidence files are restored afterwards.
ID=$1; PROP=$2; shift 2; SEEDS=${@:-1}
cd /verif
SW=/tmp/seedwt-$ID
git -C /repo worktree remove --force $SW >/dev/null 2>&1; rm -rf $SW
git -C /repo worktree add -q --detach $SW HEAD || exit 3
if ! git -C $SW apply /verif/seeded/$ID/patch.diff; then echo "PATCH DOES NOT APPLY"; git -C /repo worktree remove --force $SW; exit 3; fi
BIN=/verif/bin/sim-$ID.test
if ! VERIF_REPO=$SW VERIF_BIN=$BIN ./build.sh > /tmp/mutcheck-$ID.build 2>&1; then echo "BUILD FAILED (see /tmp/mutcheck-$ID.build)"; git -C /repo worktree remove --force $SW; exit 3; fi
mkdir -p /tmp/evbak-$ID; cp evidence/$PROP.json /tmp/evbak-$ID/ 2>/dev/null
caught=0; n=0
for s in $SEEDS; do
  n=$((n+1))
  out=$(VERIF_SEED=$s VERIF_BIN=$BIN VERIF_NOBUILD=1 VERIF_BUDGET=${MUT_BUDGET:-40s} VERIF_WORKERS=${MUT_WORKERS:-16} ./check $PROP quick 2>&1)
  e=$?
  if [ $e = 1 ]; then caught=$((caught+1)); echo "seed $s: CAUGHT $(echo "$out" | grep -a -m1 'rule=' | cut -c1-200)"; else echo "seed $s: missed (exit $e) $(echo "$out" | grep -a "^$PROP quick" | cut -c1-120)"; fi
done
cp /tmp/evbak-$ID/$PROP.json evidence/ 2>/dev/null; rm -rf /tmp/evbak-$ID
mkdir -p seeded/$ID/replays; for f in $(echo "$out" | grep -a -o 'replay=[^ ]*' | cut -d= -f2 | head -2); do [ -f "$f" ] && cp "$f" seeded/$ID/replays/; done
rm -f $BIN
git -C /repo worktree remove --force $SW >/dev/null 2>&1
rm -f sim/go.alt_tmp_seedwt_*
echo "MUTCHECK $ID $PROP: caught $caught/$n"
