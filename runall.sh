#!/bin/bash
# runs every registered check at one tier and prints one line per check (exit code, wall time)
TIER=${1:-quick}
cd /verif
./build.sh >/dev/null 2>&1 || { echo "build failed"; exit 2; }
for p in $(python3 -c "import json;print(' '.join(c['property_id'] for c in json.load(open('/verif/MANIFEST.json'))['checks']))"); do
  s=$(date +%s)
  VERIF_NOBUILD=1 ./check $p $TIER > /tmp/runall_$p.out 2>&1
  e=$?
  echo "$p exit=$e wall=$(( $(date +%s)-s ))s $(grep -a "^$p $TIER:" /tmp/runall_$p.out | cut -c1-200) $(grep -a -c 'KNOWN-FINDING' /tmp/runall_$p.out) known"
done
