#!/bin/bash
# usage: seedtest.sh <worktree> <seed-id> <prop> [<prop>...]
# The worktree holds a seeded change (patch applied) with its demonstration.
# 1. copies patch + demonstration into /verif/seeded/<id>/; 2. confirms the demonstration in the
# worktree (fails with the patch, passes without); 3. builds the checks against the patched
# worktree (separate binary, /repo untouched) and runs the quick checks of the given properties.
set -u
WT=$1; ID=$2; shift 2
export GOFLAGS=-mod=mod GOPROXY=off GOSUMDB=off GOTOOLCHAIN=local
D=/verif/seeded/$ID; mkdir -p $D
cp $WT/_seed/patch.diff $D/patch.diff
cp $WT/_seed/*.go $D/ 2>/dev/null
cp $WT/_seed/NOTES.md $D/NOTES.md 2>/dev/null
LOG=$D/run.log; : > $LOG
cd $WT
DEMOFILE=$(find . -name 'zz_seed_demo*_test.go' -not -path './_seed/*' | head -1)
PKG=$(dirname $DEMOFILE)
echo "== demo with patch ($DEMOFILE)" >> $LOG
go1.26.8 test -vet=off -count=1 -run 'TestSeed' $PKG > $D/demo_with.log 2>&1; WITH=$?
# (never git stash here: worktrees share one stash stack with the agents still running)
git apply -R $D/patch.diff >> $LOG 2>&1
echo "== demo without patch" >> $LOG
go1.26.8 test -vet=off -count=1 -run 'TestSeed' $PKG > $D/demo_without.log 2>&1; WITHOUT=$?
git apply $D/patch.diff >> $LOG 2>&1
tail -5 $D/demo_with.log >> $LOG; tail -3 $D/demo_without.log >> $LOG
echo "demo_with_patch_exit=$WITH demo_without_patch_exit=$WITHOUT" | tee -a $LOG
cd /verif
# build the checks against a fresh scratch worktree of /repo's HEAD with the patch applied
SW=/tmp/seedwt-$ID
git -C /repo worktree remove --force $SW >/dev/null 2>&1; rm -rf $SW
git -C /repo worktree add -q --detach $SW HEAD >> $LOG 2>&1
if ! git -C $SW apply $D/patch.diff >> $LOG 2>&1; then echo "PATCH DOES NOT APPLY to /repo HEAD" | tee -a $LOG; git -C /repo worktree remove --force $SW; exit 3; fi
BIN=/verif/bin/sim-$ID.test
if ! VERIF_REPO=$SW VERIF_BIN=$BIN ./build.sh >> $LOG 2>&1; then echo "BUILD FAILED against $SW" | tee -a $LOG; git -C /repo worktree remove --force $SW; exit 3; fi
RES=""
for p in "$@"; do
  cp /verif/evidence/$p.json /tmp/evidence-$p-$ID.bak 2>/dev/null
  out=$(VERIF_NOBUILD=1 VERIF_BIN=$BIN VERIF_SEED=${VERIF_SEED:-1} VERIF_BUDGET=${VERIF_BUDGET:-40s} ./check $p quick 2>&1)
  echo "== check $p" >> $LOG; echo "$out" | grep -a "VIOLATION\|rule=\|quick\|KNOWN" | cut -c1-400 >> $LOG
  if echo "$out" | grep -q "^VIOLATION property=$p"; then RES="$RES $p:CAUGHT"; echo "$out" | grep -a "rule=" | head -1 | cut -c1-250 | tee -a $LOG
  else RES="$RES $p:missed"; fi
  mkdir -p $D/replays; mv /verif/replays/$p-*.json $D/replays/ 2>/dev/null
  cp /tmp/evidence-$p-$ID.bak /verif/evidence/$p.json 2>/dev/null; rm -f /tmp/evidence-$p-$ID.bak
done
rm -f $BIN
git -C /repo worktree remove --force $SW >/dev/null 2>&1
echo "RESULT $ID demo(with=$WITH,without=$WITHOUT)$RES" | tee -a $LOG
