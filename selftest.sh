#!/bin/bash
# Determinism self-test: for every scenario, the same seed must give the same
# interleaving digests in separate processes at GOMAXPROCS 1, 4 and 16.
cd "$(dirname "$0")"
BIN=/verif/bin/sim.test
PROPS="${VERIF_SELFTEST_PROPS:-$(python3 -c "import json;print(' '.join(c['property_id'] for c in json.load(open('/verif/MANIFEST.json'))['checks']))")}"
N="${VERIF_SELFTEST_RUNS:-40}"
SEEDS="${VERIF_SELFTEST_SEEDS:-11 12}"
fail=0
tmp=$(mktemp -d /dev/shm/vself.XXXX)
for p in $PROPS; do
  for s in $SEEDS; do
    i=0
    for g in 1 4 16 1 4 16; do
      i=$((i+1))
      (GOMAXPROCS=$g $BIN -test.run '^TestSim$' -test.timeout 0 -mode determinism -prop $p -seed $s -maxruns $N 2>&1 | grep -a '^DET' > $tmp/$p.$s.$i) &
    done
    wait
    n=$(md5sum $tmp/$p.$s.* | awk '{print $1}' | sort -u | wc -l)
    lines=$(wc -l < $tmp/$p.$s.1)
    if [ "$n" != "1" ] || [ "$lines" -lt "$N" ]; then
      echo "NONDETERMINISTIC $p seed=$s variants=$n lines=$lines"
      fail=1
    else
      echo "deterministic $p seed=$s ($lines cases x 6 processes)"
    fi
  done
done
rm -rf $tmp
exit $fail
