package sim

import (
	"encoding/hex"
	"encoding/json"
	"fmt"
	"os"
)

// Case is one fully determined simulated run: configuration, client scripts,
// schedule and fault plan. A Case serialised as JSON is a replay file.
type Case struct {
	Scenario string     `json:"scenario"`
	Prop     string     `json:"prop,omitempty"`
	Cfg      Config     `json:"cfg"`
	Keys     []HexBytes `json:"keys"` // key alphabet, hex encoded
	Clients  [][]Op     `json:"clients"`
	Sched    Sched      `json:"sched"`
	Faults   Faults     `json:"faults"`
	// filled when written as a replay file
	Expect *Violation `json:"expect,omitempty"`
	Digest string     `json:"trace_digest,omitempty"`
}

// Config holds the randomised badger options and harness knobs of a run.
type Config struct {
	MemTableSize        int64    `json:"memtable"`
	NumMemtables        int      `json:"num_memtables"`
	ValueThreshold      int64    `json:"value_threshold"`
	VLogPercentile      float64  `json:"vlog_percentile"`
	ValueLogMaxEntries  uint32   `json:"vlog_max_entries"`
	NumVersionsToKeep   int      `json:"versions_to_keep"`
	DetectConflicts     bool     `json:"detect_conflicts"`
	SyncWrites          bool     `json:"sync_writes"`
	Compression         int      `json:"compression"`                 // 0 none 1 snappy 2 zstd
	EncKeyLen           int      `json:"enc_key_len"`                 // 0,16,24,32
	EncRotS             int      `json:"enc_rot_s,omitempty"`         // data-key rotation interval in seconds (0 = badger's default, 10 days)
	EncRotMs            int      `json:"enc_rot_ms,omitempty"`        // data-key rotation interval in milliseconds (overrides enc_rot_s)
	EncRotateMaster     bool     `json:"enc_rotate_master,omitempty"` // C23: rotate the master key before the last re-open
	EncKeyVariant       byte     `json:"enc_key_variant,omitempty"`   // which master key the options carry (set by the harness after a rotation)
	BlockCache          bool     `json:"block_cache"`
	IndexCache          bool     `json:"index_cache"`
	BlockSize           int      `json:"block_size"`
	Bloom               float64  `json:"bloom"`
	BaseTableSize       int64    `json:"base_table_size"`
	BaseLevelSize       int64    `json:"base_level_size"`
	LevelMult           int      `json:"level_mult"`
	TableMult           int      `json:"table_mult"`
	MaxLevels           int      `json:"max_levels"`
	L0Tables            int      `json:"l0_tables"`
	L0Stall             int      `json:"l0_stall"`
	InMemory            bool     `json:"in_memory"`
	Managed             bool     `json:"managed"`
	NumCompactors       int      `json:"num_compactors"` // 0 = driver mode
	CompactL0OnClose    bool     `json:"compact_l0_on_close"`
	LmaxCompaction      bool     `json:"lmax_compaction"`
	VerifyValueChecksum bool     `json:"verify_value_checksum"`
	ChecksumMode        int      `json:"checksum_mode"`
	SeparateValueDir    bool     `json:"separate_value_dir"`
	Groups              []string `json:"groups"`    // enabled schedule-point roles; nil = all
	SkipSeed            uint64   `json:"skip_seed"` // deterministic skiplist heights
	PrefillAllKeys      bool     `json:"prefill_all_keys,omitempty"`
	PrefillVlog         bool     `json:"prefill_vlog,omitempty"`
	PrefillClustered    bool     `json:"prefill_clustered,omitempty"`
	PrefillSkew         bool     `json:"prefill_skew,omitempty"`  // uneven version counts per key
	PrefillTTL          int      `json:"prefill_ttl,omitempty"`   // every third pre-fill write expires this many seconds after it was written
	PrefillAgeS         int      `json:"prefill_age_s,omitempty"` // simulated seconds that pass between pre-fill and the explored part (table ages)
	Prefill             int      `json:"prefill"`                 // percent of MemTableSize written (through the model) before scheduling starts
}

// Op is one client operation.
type Op struct {
	K    string    `json:"k"`
	S    int       `json:"s,omitempty"`    // transaction slot
	Key  int       `json:"key,omitempty"`  // index into Case.Keys
	Sz   int       `json:"sz,omitempty"`   // value size
	UM   byte      `json:"um,omitempty"`   // user meta
	TTL  int       `json:"ttl,omitempty"`  // seconds
	Disc bool      `json:"disc,omitempty"` // WithDiscard
	RW   bool      `json:"rw,omitempty"`
	It   *IterSpec `json:"it,omitempty"`
	N    int       `json:"n,omitempty"`  // generic count (e.g. clock seconds, batch ops)
	Ts   uint64    `json:"ts,omitempty"` // managed-mode timestamps
	F    float64   `json:"f,omitempty"`
	Sub  []Op      `json:"sub,omitempty"`
}

// IterSpec describes one iterator use.
type IterSpec struct {
	Rev       bool `json:"rev,omitempty"`
	Prefix    int  `json:"prefix"`               // key index or -1
	PrefixLen int  `json:"prefix_len,omitempty"` // 0 = the whole key is the prefix, else its first n bytes
	Seek      int  `json:"seek"`                 // key index or -1 (Rewind)
	SeekSfx   int  `json:"seek_sfx,omitempty"`   // 0 none, 1 append 0x00, 2 append 0xff
	AllV      bool `json:"allv,omitempty"`
	Since     int  `json:"since,omitempty"` // 0 none; else SinceTs = max(1, readTs - Since + 1)... see exec
	Prefetch  bool `json:"prefetch,omitempty"`
	PSize     int  `json:"psize,omitempty"`
	Max       int  `json:"max,omitempty"`  // stop after this many items (0 = all)
	KeyIter   int  `json:"key_iter"`       // key index for NewKeyIterator or -1
	Vals      int  `json:"vals,omitempty"` // 0 don't read values, 1 Value, 2 ValueCopy
	Reseek    int  `json:"reseek"`         // after Max items seek again to this key index (-1 none)
}

// Faults is the fault plan.
type Faults struct {
	CrashEvery int   `json:"crash_every,omitempty"` // take a kill image at every k-th persistence event (1 = all)
	Power      bool  `json:"power,omitempty"`       // also build power-loss images
	Torn       bool  `json:"torn,omitempty"`
	TornEvery  int   `json:"torn_every,omitempty"`
	ClockJumps []int `json:"clock_jumps,omitempty"` // seconds, consumed by "clock" ops
}

// Violation is what an oracle reports.
type Violation struct {
	Props []string `json:"props"`
	Rule  string   `json:"rule"`
	Msg   string   `json:"msg"`
	Step  uint64   `json:"step"`
}

func (v *Violation) String() string {
	return fmt.Sprintf("%v/%s at step %d: %s", v.Props, v.Rule, v.Step, v.Msg)
}

func (v *Violation) HasProp(p string) bool {
	for _, q := range v.Props {
		if q == p {
			return true
		}
	}
	return false
}

func (c *Case) JSON() []byte {
	b, err := json.MarshalIndent(c, "", " ")
	if err != nil {
		panic(err)
	}
	return b
}

func LoadCase(path string) (*Case, error) {
	b, err := os.ReadFile(path)
	if err != nil {
		return nil, err
	}
	var c Case
	if err := json.Unmarshal(b, &c); err != nil {
		return nil, err
	}
	return &c, nil
}

// HexBytes is a byte string that is hex-encoded in JSON (keys contain 0x00/0xff).
type HexBytes []byte

func (h HexBytes) MarshalJSON() ([]byte, error) {
	return json.Marshal(hex.EncodeToString(h))
}

func (h *HexBytes) UnmarshalJSON(b []byte) error {
	var s string
	if err := json.Unmarshal(b, &s); err != nil {
		return err
	}
	d, err := hex.DecodeString(s)
	if err != nil {
		return err
	}
	*h = d
	return nil
}

// KeyBytes returns the i-th key of the alphabet.
func (c *Case) KeyBytes(i int) []byte {
	if i < 0 || len(c.Keys) == 0 {
		return nil
	}
	return []byte(c.Keys[i%len(c.Keys)])
}

// MakeValue builds the unique value of (client, op): an id followed by a
// repetition of the id up to size sz. Unique per write so every read is
// attributable to exactly one write.
func MakeValue(client, op, sub, sz int) []byte {
	id := fmt.Sprintf("<c%d.o%d.%d>", client, op, sub)
	if sz < len(id) {
		sz = len(id)
	}
	out := make([]byte, 0, sz)
	for len(out) < sz {
		out = append(out, id...)
	}
	return out[:sz]
}
