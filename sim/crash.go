package sim

import (
	"bytes"
	"errors"
	"fmt"
	"os"
	"path/filepath"
	"sort"
	"strings"
	"sync"
	"testing"
	"testing/synctest"
	"time"

	badger "github.com/dgraph-io/badger/v4"
	"github.com/dgraph-io/badger/v4/vhook"
	"github.com/dgraph-io/badger/v4/y"
)

// recState is what a recovered (re-opened) database shows.
type recState struct {
	visible map[string]observed
	all     []expItem // AllVersions dump, forward
	maxVer  uint64
	keys    []string
}

// dumpDB reads the visible state and the AllVersions dump of an open DB.
func dumpDB(db *badger.DB, keys []string) (*recState, error) {
	st := &recState{visible: map[string]observed{}}
	txn := db.NewTransaction(false)
	defer txn.Discard()
	for _, k := range keys {
		item, err := txn.Get([]byte(k))
		if errors.Is(err, badger.ErrKeyNotFound) {
			st.visible[k] = observed{}
			continue
		}
		if err != nil {
			return nil, fmt.Errorf("Get(%q): %w", k, err)
		}
		o, err := readItem(item, 2)
		if err != nil {
			return nil, fmt.Errorf("value of %q@%d: %w", k, item.Version(), err)
		}
		st.visible[k] = o
	}
	opt := badger.DefaultIteratorOptions
	opt.AllVersions = true
	opt.PrefetchValues = false
	it := txn.NewIterator(opt)
	defer it.Close()
	for it.Rewind(); it.Valid(); it.Next() {
		item := it.Item()
		g := expItem{Key: string(item.KeyCopy(nil)), Ver: item.Version(), UM: item.UserMeta(), Exp: item.ExpiresAt(), Disc: item.DiscardEarlierVersions()}
		g.Del = item.IsDeletedOrExpired() && !expired(item.ExpiresAt(), now())
		if !g.Del {
			v, err := item.ValueCopy(nil)
			if err != nil {
				return nil, fmt.Errorf("value of %q@%d: %w", g.Key, g.Ver, err)
			}
			g.Val = v
		}
		if g.Ver > st.maxVer {
			st.maxVer = g.Ver
		}
		st.all = append(st.all, g)
	}
	return st, nil
}

// checkStructure verifies C14 on an open DB: files on disk == tables known to
// the DB, levels >= 1 sorted and disjoint on user keys.
func checkStructure(db *badger.DB, dir string) string {
	tables := db.Tables()
	ids := map[uint64]bool{}
	byLevel := map[int][]badger.TableInfo{}
	for _, t := range tables {
		ids[t.ID] = true
		byLevel[t.Level] = append(byLevel[t.Level], t)
	}
	ents, _ := os.ReadDir(dir)
	onDisk := map[uint64]bool{}
	for _, e := range ents {
		if strings.HasSuffix(e.Name(), ".sst") {
			var id uint64
			fmt.Sscanf(e.Name(), "%d.sst", &id)
			onDisk[id] = true
		}
	}
	for id := range ids {
		if !onDisk[id] {
			return fmt.Sprintf("table %d is in the MANIFEST/levels but its file is missing", id)
		}
	}
	for id := range onDisk {
		if !ids[id] {
			return fmt.Sprintf("file %06d.sst exists on disk but is not in the MANIFEST/levels", id)
		}
	}
	for lvl, ts := range byLevel {
		if lvl == 0 {
			continue
		}
		sort.Slice(ts, func(i, j int) bool { return y.CompareKeys(ts[i].Left, ts[j].Left) < 0 })
		for i := 0; i+1 < len(ts); i++ {
			if bytes.Compare(y.ParseKey(ts[i].Right), y.ParseKey(ts[i+1].Left)) >= 0 {
				return fmt.Sprintf("level %d: tables %d [..%q] and %d [%q..] overlap or share a user key", lvl, ts[i].ID, y.ParseKey(ts[i].Right), ts[i+1].ID, y.ParseKey(ts[i+1].Left))
			}
		}
	}
	return ""
}

// orderedCommits returns the non-failed commits allocated among the first n, by ts.
func orderedCommits(m *Model, n int) []*CommitRec {
	var cs []*CommitRec
	for i, c := range m.Commits {
		if i >= n {
			break
		}
		if !c.Failed {
			cs = append(cs, c)
		}
	}
	sort.Slice(cs, func(i, j int) bool { return cs[i].Ts < cs[j].Ts })
	return cs
}

// prefixModel builds a model from the first p commits.
func prefixModel(cs []*CommitRec, p int) *Model {
	m := NewModel()
	for _, c := range cs[:p] {
		cc := *c
		m.AddCommit(&cc)
	}
	return m
}

func sameVisible(m *Model, st *recState, keys []string, tnow uint64) string {
	for _, k := range keys {
		want := m.Read(k, ^uint64(0), tnow)
		got := st.visible[k]
		if (want != nil) != got.found {
			return fmt.Sprintf("key %q: prefix says %s, recovered %v", k, want, got)
		}
		if want != nil && (!bytes.Equal(want.Val, got.val) || want.Ts != got.ver || want.UM != got.um) {
			return fmt.Sprintf("key %q: prefix says %s, recovered %v", k, want, got)
		}
	}
	return ""
}

// verifyImage re-opens one crash image with the real code and applies the
// recovery oracles. It returns a violation or nil. Runs inside a bubble.
func (r *Run) verifyImage(img *Image, idx int) *Violation {
	root, err := os.MkdirTemp(shmDir(), "vimg-")
	if err != nil {
		r.harness = err.Error()
		return nil
	}
	defer os.RemoveAll(root)
	mapDir := func(d string) string {
		if d == r.dir {
			return filepath.Join(root, "d")
		}
		return filepath.Join(root, "v")
	}
	if err := r.disk.Materialize(img, mapDir); err != nil {
		r.harness = "materialize: " + err.Error()
		return nil
	}
	if os.Getenv("VERIF_DEBUG_IMAGES") != "" {
		var names []string
		for _, fs := range img.Dirs {
			for n, fi := range fs {
				names = append(names, fmt.Sprintf("%s(%d)", n, fi.Size))
			}
		}
		sort.Strings(names)
		fmt.Fprintf(os.Stderr, "IMG %d %s %s phase=%q acked=%d n=%d files=%v\n", idx, img.Kind, img.At, img.Phase, img.Acked, img.NCommits, names)
	}
	ndir, nvdir := mapDir(r.dir), mapDir(r.vdir)
	os.MkdirAll(ndir, 0o755)
	os.MkdirAll(nvdir, 0o755)
	cfg := r.c.Cfg
	opt := BadgerOptions(&cfg, ndir, nvdir)
	mk := func(props []string, rule, format string, args ...interface{}) *Violation {
		return &Violation{Props: props, Rule: rule, Msg: fmt.Sprintf("%s image at %s (phase %q, acked<=%d, %d commits allocated): ", img.Kind, img.At, img.Phase, img.Acked, img.NCommits) + fmt.Sprintf(format, args...), Step: img.Step}
	}
	durProps := []string{"C08"}
	if strings.HasPrefix(img.Kind, "power") {
		durProps = []string{"C10"}
	} else if img.Kind == "torn" {
		durProps = []string{"C09"}
	}
	var db *badger.DB
	var recImgs []*Image
	var recTracker *DiskTracker
	if img.Kind == "kill" && !img.Recovery && idx%5 == 2 && os.Getenv("VERIF_NO_RECOVERY_CRASH") == "" {
		db, err, recTracker = r.openTracked(opt, cfg.Managed, uniqueDirs(ndir, nvdir), img)
		if recTracker != nil {
			recImgs = recTracker.Images
		}
	} else {
		func() {
			defer func() {
				if p := recover(); p != nil {
					err = fmt.Errorf("panic in Open: %v", p)
				}
			}()
			if cfg.Managed {
				db, err = badger.OpenManaged(opt)
			} else {
				db, err = badger.Open(opt)
			}
		}()
	}
	if err != nil {
		return mk(durProps, "reopen-failed", "Open failed: %v", firstLine(err.Error()))
	}
	defer func() {
		if db != nil {
			synctest.Wait()
			db.Close()
		}
	}()
	r.probe("fault:" + img.Kind + "_image_verified")
	if img.Kind == "torn" {
		switch {
		case strings.Contains(img.At, "mwrite-wal"):
			r.probe("torn_wal_cut")
		case strings.Contains(img.At, "mwrite-vlog"):
			r.probe("torn_vlog_cut")
		case strings.Contains(img.At, "MANIFEST"):
			r.probe("torn_manifest_cut")
		}
	}
	if img.Phase != "" {
		r.probe("crash_in_" + img.Phase)
	}
	// Open hands recovered memtables to the flusher; wait until that background
	// work is quiescent so that files-vs-MANIFEST is compared at a stable point.
	synctest.Wait()
	st, v := r.checkRecoveredState(db, ndir, img, mk, durProps)
	if v != nil {
		return v
	}
	// a crash during the recovery itself: every persistence step of this Open was
	// imaged (sampled first-level images only); each second-level image must
	// recover to an acceptable state as well
	for i2, img2 := range recImgs {
		if v := r.verifyRecoveryImage(recTracker, img2, i2, img, ndir, nvdir, mk, durProps); v != nil {
			return v
		}
	}
	keys := st.keys
	if v := r.probeCommitAfterRecovery(db, st, keys, cfg, mk); v != nil {
		return v
	}
	// the recovered database is used (the probe commit above), closed cleanly and
	// opened once more: what recovery left behind (truncated logs, re-written
	// MANIFEST tail) must carry the next session too
	if img.Kind == "torn" || idx%3 == 1 {
		synctest.Wait()
		before, err := dumpDB(db, keys)
		if err != nil {
			return mk(durProps, "read-after-recovery", "%v", err)
		}
		cerr := db.Close()
		db = nil
		if cerr != nil {
			return mk(durProps, "close-after-recovery", "Close of the recovered database failed: %v", cerr)
		}
		var db2 *badger.DB
		func() {
			defer func() {
				if p := recover(); p != nil {
					err = fmt.Errorf("panic in Open: %v", p)
				}
			}()
			if cfg.Managed {
				db2, err = badger.OpenManaged(opt)
			} else {
				db2, err = badger.Open(opt)
			}
		}()
		if err != nil {
			return mk(durProps, "second-open-failed", "after recovery, one commit and a clean Close the next Open failed: %v", firstLine(err.Error()))
		}
		db = db2
		synctest.Wait()
		after, err := dumpDB(db, keys)
		if err != nil {
			return mk(durProps, "read-after-second-open", "%v", err)
		}
		if d := sameVisibleStates(before, after); d != "" {
			return mk(durProps, "state-changed-after-second-open", "the recovered database was closed cleanly and re-opened, and shows a different visible state: %s", d)
		}
		r.probe("fault:second_open_after_recovery_verified")
	}
	return nil
}

// checkRecoveredState: structure, no garbage, visible state is a commit prefix >= acked.
func (r *Run) checkRecoveredState(db *badger.DB, ndir string, img *Image, mk func(props []string, rule, format string, args ...interface{}) *Violation, durProps []string) (*recState, *Violation) {
	if msg := checkStructure(db, ndir); msg != "" {
		return nil, mk([]string{"C14"}, "structure-after-recovery", "%s", msg)
	}
	r.mu.Lock()
	keys := r.model.AllKeys()
	cs := orderedCommits(r.model, img.NCommits)
	full := r.model
	r.mu.Unlock()
	st, err := dumpDB(db, keys)
	if err != nil {
		return nil, mk(append(durProps, "C09"), "read-after-recovery", "%v", err)
	}
	st.keys = keys
	// (1) no garbage: every recovered version is a write of the model
	for _, g := range st.all {
		if strings.HasPrefix(g.Key, "!badger!") {
			continue
		}
		found := false
		for _, v := range full.Keys[g.Key] {
			if v.Ts == g.Ver {
				if v.Del == g.Del && (g.Del || bytes.Equal(v.Val, g.Val)) {
					found = true
				}
				break
			}
		}
		if !found {
			return nil, mk(append(durProps, "C09", "C16"), "garbage-after-recovery", "recovered version %q@%d (deleted=%v value=%s) was never written", g.Key, g.Ver, g.Del, short(g.Val))
		}
	}
	// (2) visible state = some commit-order prefix that contains every acknowledged commit
	minP := 0
	for i, c := range cs {
		if c.Ts <= img.Acked {
			minP = i + 1
		}
	}
	tnow := now()
	var firstDiff string
	ok := false
	for p := minP; p <= len(cs); p++ {
		d := sameVisible(prefixModel(cs, p), st, keys, tnow)
		if d == "" {
			ok = true
			if p > minP {
				r.probe("recovered_unacked_commit")
			}
			break
		}
		if firstDiff == "" {
			firstDiff = d
		}
	}
	if !ok {
		return nil, mk(durProps, "not-a-commit-prefix", "recovered visible state is not the result of any commit prefix of length %d..%d (acknowledged prefix: %s)", minP, len(cs), firstDiff)
	}
	return st, nil
}

// probeCommitAfterRecovery (C11): a new commit must get a timestamp above every stored version.
func (r *Run) probeCommitAfterRecovery(db *badger.DB, st *recState, keys []string, cfg Config, mk func(props []string, rule, format string, args ...interface{}) *Violation) *Violation {
	if !cfg.Managed {
		var pk []byte
		if len(keys) > 0 {
			pk = []byte(keys[0])
		} else {
			pk = []byte("probe")
		}
		pv := []byte("<probe-after-recovery>")
		if err := db.Update(func(txn *badger.Txn) error { return txn.Set(pk, pv) }); err != nil {
			return mk([]string{"C11", "C08"}, "commit-after-recovery", "commit after recovery failed: %v", err)
		}
		var ver uint64
		var got []byte
		err := db.View(func(txn *badger.Txn) error {
			item, err := txn.Get(pk)
			if err != nil {
				return err
			}
			ver = item.Version()
			got, err = item.ValueCopy(nil)
			return err
		})
		if err != nil || !bytes.Equal(got, pv) {
			return mk([]string{"C11"}, "stale-after-recovery", "write after recovery is not visible: err=%v got=%s", err, short(got))
		}
		if ver <= st.maxVer {
			return mk([]string{"C11"}, "timestamp-not-above-stored", "commit after recovery got version %d but version %d is already stored", ver, st.maxVer)
		}
	}
	return nil
}

// ExecuteCrash runs a case with the disk tracker on and then verifies every
// captured crash image by re-opening it with the real code.
func ExecuteCrash(t *testing.T, c *Case, prof *Profile, keepHist bool) Outcome {
	return executeWith(t, c, prof, keepHist, func(r *Run) {
		every := c.Faults.CrashEvery
		if every <= 0 {
			every = 1
		}
		max := 400
		r.disk = NewDiskTracker(uniqueDirs(r.dir, r.vdir), c.Faults.Power, every, max)
		r.disk.KillImages = !c.Faults.Power
		if c.Faults.Torn {
			r.disk.Torn = true
			r.disk.TornEvery = c.Faults.TornEvery
			r.disk.TornCuts = 12
			r.disk.MaxImgs = 900
		}
		r.disk.snapshot = func() (uint64, int, uint64, string) {
			r.mu.Lock()
			defer r.mu.Unlock()
			return r.maxAckedTs, len(r.model.Commits), r.e.Steps, r.phase
		}
	}, func(t *testing.T, r *Run) {
		if r.viol != nil || r.harness != "" || r.disk == nil {
			return
		}
		imgs := r.disk.Images
		r.pmu.Lock()
		r.stats.Probes["persistence_events"] += uint64(r.disk.Events)
		r.stats.Probes["images_captured"] += uint64(len(imgs))
		for k, v := range r.disk.Kinds {
			r.stats.Probes["io:"+k] += uint64(v)
		}
		r.pmu.Unlock()
		for i, img := range imgs {
			var v *Violation
			func() {
				defer func() {
					if p := recover(); p != nil && v == nil && r.harness == "" {
						// A failed Open can leave goroutines behind; that only matters
						// (as harness trouble) when no violation was established.
						r.harness = fmt.Sprintf("panic around verification bubble of image %d (%s): %v", i, img.At, p)
					}
				}()
				synctest.Test(t, func(t *testing.T) {
					v = r.verifyImage(img, i)
				})
			}()
			if v != nil {
				if k := matchKnown(r.c.Prop, v); k != nil {
					// a recorded, unrepaired genuine defect: count it, keep exploring
					r.harness = ""
					r.pmu.Lock()
					r.stats.Known[k.What]++
					r.pmu.Unlock()
					continue
				}
				r.viol = v
				r.harness = ""
				break
			}
			if r.harness != "" {
				break
			}
			r.stats.Checks++
		}
		if len(imgs) > 1 {
			r.stats.NonTrivial = true
		}
	})
}

func uniqueDirs(a, b string) []string {
	if a == b {
		return []string{a}
	}
	return []string{a, b}
}

// openTracked runs the recovery Open under a sequential scheduler with a disk
// tracker of its own: every persistence step of the recovery (WAL truncation,
// flush of the recovered memtables, MANIFEST appends, file deletions) yields a
// second-level kill image, i.e. the state a second crash during recovery leaves.
func (r *Run) openTracked(opt badger.Options, managed bool, dirs []string, img *Image) (db *badger.DB, err error, t2 *DiskTracker) {
	// two recoveries in three follow a seeded random schedule (lock acquisitions are
	// preemption points), the third the sequential default
	sched := Sched{}
	seq := img.Event%3 == 0
	if !seq {
		sched = Sched{TailSeed: r.c.Cfg.SkipSeed*31 + uint64(img.Event), Preempt: 30, LockYield: 40}
	}
	e := NewEngine(sched, []string{"client", "flusher", "compactor", "subcompact", "builder", "db"})
	e.Sequential = seq
	e.Install()
	vhook.NowFn = func() (time.Time, bool) { return time.Now(), true }
	t2 = NewDiskTracker(dirs, false, 1, 16)
	t2.KillImages = true
	t2.snapshot = func() (uint64, int, uint64, string) { return img.Acked, img.NCommits, img.Step, "recovery" }
	t2.Install()
	e.OnIO = func(gid int64, kind, path string, off, n int64) { t2.OnIO(kind, path, off, n) }
	t2.Capture = true
	var mu sync.Mutex
	opened := false
	go func() {
		e.Register("recover")
		e.Point("client.op")
		func() {
			defer func() {
				if p := recover(); p != nil {
					err = fmt.Errorf("panic in Open: %v", p)
				}
			}()
			if managed {
				db, err = badger.OpenManaged(opt)
			} else {
				db, err = badger.Open(opt)
			}
		}()
		mu.Lock()
		opened = true
		mu.Unlock()
	}()
	res := e.Run(func() bool {
		mu.Lock()
		defer mu.Unlock()
		return opened && e.OnlyTickersParked()
	}, 100000)
	t2.Capture = false
	e.Stop()
	Uninstall()
	t2.Uninstall()
	if (res.Deadlock || res.StepBudget) && err == nil && !opened {
		err = fmt.Errorf("recovery did not finish under the scheduler: %s", res.Dump)
	}
	for _, i2 := range t2.Images {
		i2.Recovery = true
	}
	return db, err, t2
}

// verifyRecoveryImage re-opens one second-level image (plain Open) and applies the
// same state oracle as for the first crash.
func (r *Run) verifyRecoveryImage(t2 *DiskTracker, img2 *Image, i2 int, first *Image, ndir, nvdir string, mk0 func(props []string, rule, format string, args ...interface{}) *Violation, durProps []string) *Violation {
	root, err := os.MkdirTemp(shmDir(), "vimg2-")
	if err != nil {
		r.harness = err.Error()
		return nil
	}
	defer os.RemoveAll(root)
	mapDir := func(d string) string {
		if d == ndir {
			return filepath.Join(root, "d")
		}
		return filepath.Join(root, "v")
	}
	if err := t2.Materialize(img2, mapDir); err != nil {
		r.harness = "materialize recovery image: " + err.Error()
		return nil
	}
	d2, v2 := mapDir(ndir), mapDir(nvdir)
	os.MkdirAll(d2, 0o755)
	os.MkdirAll(v2, 0o755)
	cfg := r.c.Cfg
	opt := BadgerOptions(&cfg, d2, v2)
	mk := func(props []string, rule, format string, args ...interface{}) *Violation {
		v := mk0(props, rule, format, args...)
		v.Msg = fmt.Sprintf("second crash during the recovery of this image, at recovery step %s: ", img2.At) + v.Msg
		return v
	}
	var db *badger.DB
	func() {
		defer func() {
			if p := recover(); p != nil {
				err = fmt.Errorf("panic in Open: %v", p)
			}
		}()
		if cfg.Managed {
			db, err = badger.OpenManaged(opt)
		} else {
			db, err = badger.Open(opt)
		}
	}()
	if err != nil {
		return mk(durProps, "reopen-failed", "Open failed: %v", firstLine(err.Error()))
	}
	defer func() {
		synctest.Wait()
		db.Close()
	}()
	synctest.Wait()
	r.probe("fault:recovery_kill_image_verified")
	_, v := r.checkRecoveredState(db, d2, first, mk, durProps)
	return v
}
