package sim

import (
	"bytes"
	"crypto/sha1"
	"fmt"
	"os"
	"path/filepath"
	"runtime/debug"
	"sort"
	"strings"
	"sync"
	"unsafe"

	"github.com/dgraph-io/ristretto/v2/z"
)

// FileImg is one file of a crash image: logical size + content with trailing
// zeros trimmed (stored once per distinct content).
type FileImg struct {
	Size int64
	Blob [20]byte
}

// Image is the directory state a crash at one persistence event would leave.
type Image struct {
	Event    int
	Kind     string // kill | power | power-empty | torn
	At       string // event description
	Dirs     map[string]map[string]FileImg
	Acked    uint64 // highest commit ts acknowledged before the event
	NCommits int    // commits whose ts was allocated before the event
	Step     uint64
	Phase    string // what the DB was doing (flush/compaction/gc/drop/open/close/"")
	Recovery bool   // second-level image: taken during the recovery of another image
}

type fobj struct {
	id         int
	synced     []byte // content at last sync, trailing zeros trimmed
	syncedSize int64
	everSynced bool
	createSize int64
	syncGen    int // incremented at every sync of this file
}

// DiskTracker observes every persistence step and materialises crash images.
type DiskTracker struct {
	mu     sync.Mutex
	dirs   []string
	maps   map[string][]byte  // live mappings by path
	ptrs   map[uintptr]string // mapping base -> path
	blobs  map[[20]byte][]byte
	Images []*Image
	Events int
	Kinds  map[string]int

	// power-loss model
	power   bool
	vol     map[string]*fobj            // volatile namespace: path -> object
	durable map[string]map[string]*fobj // dir -> name -> object at last dirsync
	nextObj int

	Every        int // capture an image at every k-th event (0 = none)
	MaxImgs      int
	snapshot     func() (acked uint64, ncommits int, step uint64, phase string)
	enabled      bool
	lastSig      string
	lastPowerSig string
	KillImages   bool // false = power-loss images only (C10; kill images are C08's job)
	Capture      bool // images are taken only while the scheduler serialises execution
	// torn-write synthesis
	Torn      bool
	TornEvery int // derive torn variants at every k-th append event
	TornCuts  int // sampled interior cut offsets for long records
	appends   int
	TornCount int
}

func NewDiskTracker(dirs []string, power bool, every, max int) *DiskTracker {
	d := &DiskTracker{dirs: dirs, maps: map[string][]byte{}, ptrs: map[uintptr]string{}, blobs: map[[20]byte][]byte{},
		Kinds: map[string]int{}, power: power, vol: map[string]*fobj{}, durable: map[string]map[string]*fobj{}, Every: every, MaxImgs: max}
	for _, dir := range dirs {
		d.durable[dir] = map[string]*fobj{}
	}
	return d
}

func base(b []byte) uintptr {
	if len(b) == 0 {
		return 0
	}
	return uintptr(unsafe.Pointer(&b[0]))
}

// Install hooks the tracker into the instrumented ristretto copy.
func (d *DiskTracker) Install() {
	d.enabled = true
	z.VerifHook = d.onMmap
}

func (d *DiskTracker) Uninstall() {
	d.enabled = false
	z.VerifHook = nil
}

func trimZeros(b []byte) []byte {
	return bytes.TrimRight(b, "\x00")
}

func (d *DiskTracker) blob(content []byte) [20]byte {
	t := trimZeros(content)
	h := sha1.Sum(t)
	if _, ok := d.blobs[h]; !ok {
		d.blobs[h] = append([]byte{}, t...)
	}
	return h
}

func (d *DiskTracker) obj(path string) *fobj {
	o := d.vol[path]
	if o == nil {
		d.nextObj++
		o = &fobj{id: d.nextObj}
		d.vol[path] = o
	}
	return o
}

// content returns the current content of a file (through the live mapping
// when there is one: the mapping is MAP_SHARED, i.e. the page cache).
func (d *DiskTracker) content(path string) ([]byte, int64, bool) {
	if m, ok := d.maps[path]; ok {
		return m, int64(len(m)), true
	}
	b, err := os.ReadFile(path)
	if err != nil {
		return nil, 0, false
	}
	return b, int64(len(b)), true
}

func (d *DiskTracker) markSynced(path string) {
	if !d.power {
		return
	}
	c, sz, ok := d.content(path)
	if !ok {
		return
	}
	o := d.obj(path)
	o.synced = append(o.synced[:0], trimZeros(c)...)
	o.syncedSize = sz
	o.everSynced = true
	o.syncGen++
}

// onMmap receives ristretto's mmap-file life-cycle events.
func (d *DiskTracker) onMmap(op, path string, data []byte, arg int64) {
	d.mu.Lock()
	switch op {
	case "create":
		o := d.obj(path)
		o.createSize = arg
	case "open":
		d.obj(path)
		if len(data) > 0 {
			d.maps[path] = data
			d.ptrs[base(data)] = path
		}
	case "truncate":
		if old, ok := d.maps[path]; ok {
			delete(d.ptrs, base(old))
		}
		if len(data) > 0 {
			d.maps[path] = data
			d.ptrs[base(data)] = path
		} else {
			delete(d.maps, path)
		}
		// MmapFile.Truncate msyncs first (reported separately as "msync").
	case "msync":
		if p, ok := d.ptrs[base(data)]; ok {
			path = p
			d.markSynced(p)
		}
	case "delete":
		if old, ok := d.maps[path]; ok {
			delete(d.ptrs, base(old))
			delete(d.maps, path)
		}
		delete(d.vol, path)
	case "close":
		if old, ok := d.maps[path]; ok {
			delete(d.ptrs, base(old))
			delete(d.maps, path)
		}
	case "dirsync":
		d.dirsync(path)
	}
	d.mu.Unlock()
	d.event("z."+op, path)
}

func (d *DiskTracker) dirsync(dir string) {
	if !d.power {
		return
	}
	dir = filepath.Clean(dir)
	snap := map[string]*fobj{}
	for p, o := range d.vol {
		if filepath.Dir(p) == dir {
			snap[filepath.Base(p)] = o
		}
	}
	d.durable[dir] = snap
}

// OnIO receives badger's own fd / memcpy I/O events (vhook.IO).
func (d *DiskTracker) OnIO(kind, path string, off, n int64) {
	if !d.enabled {
		return
	}
	d.mu.Lock()
	switch kind {
	case "fcreate":
		d.obj(path)
	case "fwrite", "ftruncate":
		d.obj(path)
	case "fwrite-dsync":
		d.obj(path)
		d.markSynced(path)
	case "fsync":
		d.markSynced(path)
	case "rename":
		if i := strings.IndexByte(path, 0); i >= 0 {
			from, to := path[:i], path[i+1:]
			if o, ok := d.vol[from]; ok {
				d.vol[to] = o
				delete(d.vol, from)
			}
		}
	case "remove":
		delete(d.vol, path)
	case "dirsync":
		d.dirsync(path)
	}
	d.mu.Unlock()
	d.event(kind, path)
	if d.Torn && d.Capture && (kind == "mwrite-wal" || kind == "mwrite-vlog" || (kind == "fwrite" && strings.HasSuffix(path, "MANIFEST"))) {
		d.mu.Lock()
		d.appends++
		if d.TornEvery <= 1 || d.appends%d.TornEvery == 0 {
			d.tornLocked(kind, path, off, n)
		}
		d.mu.Unlock()
	}
}

// tornLocked derives, from the directory as it is right after an append of n
// bytes at off, the images a crash in the middle of that append would leave:
// the record cut at byte k with the rest zero-filled, or the file ending at k.
func (d *DiskTracker) tornLocked(kind, path string, off, n int64) {
	if len(d.Images) >= d.MaxImgs {
		return
	}
	c, sz, ok := d.content(path)
	if !ok || n <= 0 {
		return
	}
	if kind == "fwrite" {
		off = sz - n
	}
	if off < 0 || off+n > sz {
		return
	}
	saved := d.lastSig
	d.lastSig = ""
	basis := d.captureLocked("kill", fmt.Sprintf("#%d %s %s", d.Events, kind, filepath.Base(path)))
	d.lastSig = saved
	if basis == nil {
		return
	}
	// the basis itself is an ordinary kill image (already in d.Images)
	cuts := map[int64]bool{}
	if n <= 48 {
		for k := int64(0); k < n; k++ {
			cuts[k] = true
		}
	} else {
		for k := int64(0); k < 20; k++ {
			cuts[k] = true
			cuts[n-1-k] = true
		}
		step := n / int64(d.TornCuts+1)
		if step < 1 {
			step = 1
		}
		for k := step; k < n; k += step {
			cuts[k] = true
		}
	}
	ks := make([]int64, 0, len(cuts))
	for k := range cuts {
		ks = append(ks, k)
	}
	sort.Slice(ks, func(i, j int) bool { return ks[i] < ks[j] })
	dir, name := filepath.Dir(path), filepath.Base(path)
	full := append([]byte{}, c...)
	for _, k := range ks {
		for variant := 0; variant < 2; variant++ {
			if len(d.Images) >= d.MaxImgs {
				return
			}
			var fi FileImg
			var vname string
			if variant == 0 {
				// rest of the record never reached the file: zeros
				buf := append([]byte{}, full...)
				for i := off + k; i < off+n; i++ {
					buf[i] = 0
				}
				fi = FileImg{Size: sz, Blob: d.blob(buf)}
				vname = "zero-filled"
			} else {
				fi = FileImg{Size: off + k, Blob: d.blob(full[:off+k])}
				vname = "truncated"
			}
			img := &Image{Event: basis.Event, Kind: "torn", At: fmt.Sprintf("%s cut at byte %d/%d (%s)", basis.At, k, n, vname),
				Dirs: map[string]map[string]FileImg{}, Acked: basis.Acked, NCommits: basis.NCommits, Step: basis.Step, Phase: basis.Phase}
			for dd, files := range basis.Dirs {
				nf := make(map[string]FileImg, len(files))
				for fn, f := range files {
					nf[fn] = f
				}
				if filepath.Clean(dd) == filepath.Clean(dir) {
					nf[name] = fi
				}
				img.Dirs[dd] = nf
			}
			d.Images = append(d.Images, img)
			d.TornCount++
		}
	}
}

func (d *DiskTracker) event(kind, path string) {
	d.mu.Lock()
	defer d.mu.Unlock()
	d.Events++
	d.Kinds[kind]++
	if d.Every <= 0 || !d.Capture || len(d.Images) >= d.MaxImgs {
		return
	}
	if d.Events%d.Every != 0 {
		return
	}
	at := fmt.Sprintf("#%d %s %s", d.Events, kind, filepath.Base(strings.ReplaceAll(path, "\x00", "->")))
	if d.KillImages || !d.power {
		d.captureLocked("kill", at)
	}
	if d.power {
		d.capturePowerLocked(at, false)
	}
}

func (d *DiskTracker) meta(img *Image) {
	if d.snapshot != nil {
		img.Acked, img.NCommits, img.Step, img.Phase = d.snapshot()
	}
}

// captureLocked takes a kill image: the directory exactly as it is now.
func (d *DiskTracker) captureLocked(kind, at string) *Image {
	defer debug.SetPanicOnFault(debug.SetPanicOnFault(true))
	img := &Image{Event: d.Events, Kind: kind, At: at, Dirs: map[string]map[string]FileImg{}}
	d.meta(img)
	var sig strings.Builder
	for _, dir := range d.dirs {
		files := map[string]FileImg{}
		ents, _ := os.ReadDir(dir)
		for _, ent := range ents {
			if ent.IsDir() {
				continue
			}
			p := filepath.Join(dir, ent.Name())
			c, sz, ok := d.content(p)
			if !ok {
				continue
			}
			var fi FileImg
			func() {
				defer func() {
					if r := recover(); r != nil {
						fmt.Fprintf(os.Stderr, "FAULT reading mapping of %s (len %d) at event %s: %v\n", p, len(c), at, r)
						os.Exit(2)
					}
				}()
				fi = FileImg{Size: sz, Blob: d.blob(c)}
			}()
			files[ent.Name()] = fi
			fmt.Fprintf(&sig, "%s:%d:%x;", ent.Name(), sz, fi.Blob[:6])
		}
		img.Dirs[dir] = files
	}
	// identical consecutive states need not be verified twice
	s := kind + sig.String() + fmt.Sprint(img.Acked, img.NCommits)
	if s == d.lastSig {
		return nil
	}
	d.lastSig = s
	d.Images = append(d.Images, img)
	return img
}

// capturePowerLocked builds the power-loss image: only directory entries that
// were covered by a directory fsync, each with the content of its last sync.
func (d *DiskTracker) capturePowerLocked(at string, emptyVariant bool) {
	kind := "power"
	if emptyVariant {
		kind = "power-empty"
	}
	img := &Image{Event: d.Events, Kind: kind, At: at, Dirs: map[string]map[string]FileImg{}}
	d.meta(img)
	var sig strings.Builder
	for _, dir := range d.dirs {
		files := map[string]FileImg{}
		names := make([]string, 0, len(d.durable[filepath.Clean(dir)]))
		for name := range d.durable[filepath.Clean(dir)] {
			names = append(names, name)
		}
		sort.Strings(names)
		for _, name := range names {
			o := d.durable[filepath.Clean(dir)][name]
			fmt.Fprintf(&sig, "%s:%d:%v:%d:%d;", name, o.id, o.everSynced, o.syncGen, o.createSize)
		}
		for name, o := range d.durable[filepath.Clean(dir)] {
			switch {
			case o.everSynced:
				files[name] = FileImg{Size: o.syncedSize, Blob: d.blob(o.synced)}
			case emptyVariant:
				files[name] = FileImg{Size: 0, Blob: d.blob(nil)}
			default:
				files[name] = FileImg{Size: o.createSize, Blob: d.blob(nil)}
			}
		}
		img.Dirs[dir] = files
	}
	// the durable state only changes at sync / dir-sync events: verify a state
	// again only when more commits had been acknowledged in the meantime
	ps := kind + sig.String() + fmt.Sprint(img.Acked)
	if ps == d.lastPowerSig {
		return
	}
	d.lastPowerSig = ps
	d.Images = append(d.Images, img)
}

// Materialize writes the image into fresh directories (same layout) below root.
func (d *DiskTracker) Materialize(img *Image, mapDir func(string) string) error {
	for dir, files := range img.Dirs {
		nd := mapDir(dir)
		if err := os.MkdirAll(nd, 0o755); err != nil {
			return err
		}
		names := make([]string, 0, len(files))
		for n := range files {
			names = append(names, n)
		}
		sort.Strings(names)
		for _, n := range names {
			if n == "LOCK" {
				continue
			}
			fi := files[n]
			f, err := os.Create(filepath.Join(nd, n))
			if err != nil {
				return err
			}
			if _, err := f.Write(d.blobs[fi.Blob]); err != nil {
				f.Close()
				return err
			}
			if err := f.Truncate(fi.Size); err != nil {
				f.Close()
				return err
			}
			f.Close()
		}
	}
	return nil
}

// FileBytes returns the full content of one file of an image.
func (d *DiskTracker) FileBytes(fi FileImg) []byte {
	b := make([]byte, fi.Size)
	copy(b, d.blobs[fi.Blob])
	return b
}
