package sim

import (
	"bytes"
	"errors"
	"fmt"
	"os"
	"path/filepath"
	"sort"
	"time"

	badger "github.com/dgraph-io/badger/v4"
)

// ---------- encryption at rest (C23) ----------
//
// The scenario is the re-open scenario with an encryption key forced on and a
// data-key rotation interval that simulated clock jumps exceed. Transparency
// (reads equal the model, i.e. what an unencrypted database returns) is checked
// by the ordinary read oracles during the run; encryptionChecks runs in the
// closer, before the final Close.

func encKey(n int, variant byte) []byte {
	k := make([]byte, n)
	for i := range k {
		k[i] = byte(i*7+1) ^ variant
	}
	return k
}

// onEncIV records the (data key id, IV) pair of one encrypted block or record.
func (r *Run) onEncIV(iv []byte, keyID, kind uint64) {
	id := fmt.Sprintf("%d/%x", keyID, iv)
	r.mu.Lock()
	defer r.mu.Unlock()
	if r.encIVs == nil {
		r.encIVs = map[string]uint64{}
		r.encKeyIDs = map[uint64]bool{}
	}
	r.encKeyIDs[keyID] = true
	if prev, dup := r.encIVs[id]; dup {
		names := map[uint64]string{1: "table block/index", 2: "log record"}
		r.violateLocked([]string{"C23"}, "iv-reused", "data key %d and IV %x were used for a %s and again for a %s", keyID, iv, names[prev], names[kind])
		return
	}
	r.encIVs[id] = kind
}

func encryptionChecks(r *Run) {
	cfg := r.c.Cfg
	if cfg.EncKeyLen == 0 || cfg.InMemory {
		return
	}
	r.mu.Lock()
	keys := r.model.AllKeys()
	// distinctive plaintext: keys of >= 8 bytes and the id marker of every written value
	needles := map[string]string{}
	for _, k := range keys {
		if len(k) >= 8 {
			needles[k] = fmt.Sprintf("user key %q", short([]byte(k)))
		}
		for _, v := range r.model.Keys[k] {
			if len(v.Val) >= 8 {
				if i := bytes.IndexByte(v.Val, '>'); i >= 7 {
					needles[string(v.Val[:i+1])] = fmt.Sprintf("value of %q@%d", short([]byte(k)), v.Ts)
				}
			}
		}
	}
	nKeyIDs := len(r.encKeyIDs)
	r.mu.Unlock()
	if nKeyIDs > 1 {
		r.probe("enc_data_key_rotated")
	}
	st1, err := dumpDB(r.db, keys)
	if err != nil {
		r.violate([]string{"C23", "C01"}, "dump-before-close", "%v", err)
		return
	}
	r.encSt1, r.encNeedles, r.encKeys, r.encNKeyIDs = st1, needles, keys, nKeyIDs
}

// encryptionPost runs after the simulated run (the database is closed), in a
// bubble of its own: a refused Open leaves cache goroutines behind, which would
// wedge the main bubble.
func encryptionPost(r *Run) {
	cfg := r.c.Cfg
	st1, needles, keys, nKeyIDs := r.encSt1, r.encNeedles, r.encKeys, r.encNKeyIDs
	if st1 == nil {
		return
	}
	dirs := uniqueDirs(r.dir, r.vdir)
	var db2 *badger.DB
	defer func() {
		if db2 != nil {
			_ = db2.Close()
		}
	}()
	reopen := func(c Config) bool {
		db, err := badger.Open(BadgerOptions(&c, r.dir, r.vdir))
		if err != nil {
			r.violate([]string{"C23", "C07"}, "reopen-failed", "Open with the right key failed: %v", firstLine(err.Error()))
			return false
		}
		db2 = db
		return true
	}
	// (1) no plaintext in any file
	var names []string
	for n := range needles {
		names = append(names, n)
	}
	sort.Strings(names)
	for _, d := range dirs {
		ents, _ := os.ReadDir(d)
		for _, e := range ents {
			if e.IsDir() {
				continue
			}
			b, err := os.ReadFile(filepath.Join(d, e.Name()))
			if err != nil {
				continue
			}
			for _, n := range names {
				if bytes.Contains(b, []byte(n)) {
					r.violate([]string{"C23"}, "plaintext-on-disk", "file %s contains the plaintext of %s (%d bytes matched)", e.Name(), needles[n], len(n))
					return
				}
			}
			r.stats.Checks++
		}
	}
	r.probe("enc_files_scanned")
	// (2) a different key is refused and nothing changes
	h1 := dirHash(dirs)
	bad := BadgerOptions(&cfg, r.dir, r.vdir)
	bad.EncryptionKey = encKey(cfg.EncKeyLen, 0x5a)
	dbBad, err := badger.Open(bad)
	if err == nil {
		_ = dbBad.Close()
		r.violate([]string{"C23"}, "wrong-key-accepted", "Open with a different %d-byte encryption key succeeded", cfg.EncKeyLen)
		return
	}
	if !errors.Is(err, badger.ErrEncryptionKeyMismatch) {
		r.violate([]string{"C23"}, "wrong-key-error", "Open with a different encryption key failed with %q, not ErrEncryptionKeyMismatch", firstLine(err.Error()))
		return
	}
	if d := diffDirHash(h1, dirHash(dirs)); d != "" {
		r.violate([]string{"C23"}, "wrong-key-open-modified-files", "the refused Open changed the directory: %s", d)
		return
	}
	r.probe("enc_wrong_key_refused")
	// (3) master-key rotation the way `badger rotate` does it, then everything
	// written under the old master key and the old data keys must read the same
	cfg2 := cfg
	if cfg.EncRotateMaster {
		ko := badger.KeyRegistryOptions{Dir: r.dir, ReadOnly: true, EncryptionKey: encKey(cfg.EncKeyLen, 0), EncryptionKeyRotationDuration: 10 * 24 * time.Hour}
		kr, err := badger.OpenKeyRegistry(ko)
		if err != nil {
			r.violate([]string{"C23"}, "rotate-open-registry", "OpenKeyRegistry with the current key failed: %v", err)
			return
		}
		ko.EncryptionKey = encKey(cfg.EncKeyLen, 0x33)
		if err := badger.WriteKeyRegistry(kr, ko); err != nil {
			r.violate([]string{"C23"}, "rotate-write-registry", "WriteKeyRegistry with the new key failed: %v", err)
			return
		}
		cfg2.EncKeyVariant = 0x33
		// the old master key is now the wrong key
		old := BadgerOptions(&cfg, r.dir, r.vdir)
		if dbOld, err := badger.Open(old); err == nil {
			_ = dbOld.Close()
			r.violate([]string{"C23"}, "old-master-key-accepted", "after master-key rotation Open with the old key succeeded")
			return
		} else if !errors.Is(err, badger.ErrEncryptionKeyMismatch) {
			r.violate([]string{"C23"}, "wrong-key-error", "after master-key rotation Open with the old key failed with %q, not ErrEncryptionKeyMismatch", firstLine(err.Error()))
			return
		}
		r.probe("enc_master_key_rotated")
	}
	if !reopen(cfg2) {
		return
	}
	st2, err := dumpDB(db2, keys)
	if err != nil {
		r.violate([]string{"C23"}, "read-after-reopen", "reading after re-open (data keys: %d, master key rotated: %v) failed: %v", nKeyIDs, cfg.EncRotateMaster, err)
		return
	}
	if d := sameVisibleStates(st1, st2); d != "" {
		r.violate([]string{"C23", "C07"}, "state-changed-across-reopen", "re-open (master key rotated: %v) shows a different visible state: %s", cfg.EncRotateMaster, d)
		return
	}
	if d := subsetVersions(st1, st2); d != "" {
		r.violate([]string{"C23", "C07"}, "versions-changed-across-reopen", "%s", d)
		return
	}
	r.mu.Lock()
	m := r.model
	r.mu.Unlock()
	if d := sameVisible(m, st2, keys, now()); d != "" {
		r.violate([]string{"C23", "C01"}, "state-after-reopen-vs-model", "%s", d)
		return
	}
	r.stats.Checks += 3
	r.probe("enc_reopen_verified")
	// (4) a third session: let the rotation interval pass, write under the (new) latest
	// data key, close, open again: data under every earlier data key must still read back
	rot := 10 * 24 * time.Hour
	if cfg.EncRotS > 0 {
		rot = time.Duration(cfg.EncRotS) * time.Second
	}
	if cfg.EncRotMs > 0 {
		rot = time.Duration(cfg.EncRotMs) * time.Millisecond
	}
	if rot > time.Hour {
		return
	}
	probes := map[string][]byte{}
	for round := 0; round < 3; round++ {
		time.Sleep(rot + time.Millisecond)
		for i := 0; i < 12; i++ {
			k := fmt.Sprintf("zz-enc-probe-%d-%02d", round, i)
			v := bytes.Repeat([]byte(fmt.Sprintf("<probe.%d.%d>", round, i)), 12)
			if err := db2.Update(func(txn *badger.Txn) error { return txn.Set([]byte(k), v) }); err != nil {
				r.violate([]string{"C23"}, "write-after-reopen", "commit in the session after the re-open failed: %v", err)
				return
			}
			probes[k] = v
		}
	}
	if err := db2.Close(); err != nil {
		db2 = nil
		r.violate([]string{"C23", "C07"}, "close-error", "Close of the second session failed: %v", err)
		return
	}
	db2 = nil
	var err3 error
	func() {
		defer func() {
			if p := recover(); p != nil {
				err3 = fmt.Errorf("panic: %v", p)
			}
		}()
		db2, err3 = badger.Open(BadgerOptions(&cfg2, r.dir, r.vdir))
	}()
	if err3 != nil {
		r.violate([]string{"C23", "C07"}, "third-open-failed", "Open of the third session (after writes under a rotated data key) failed: %v", firstLine(err3.Error()))
		return
	}
	st3, err := dumpDB(db2, keys)
	if err != nil {
		r.violate([]string{"C23"}, "read-in-third-session", "reading in the third session failed: %v", err)
		return
	}
	if d := sameVisibleStates(st1, st3); d != "" {
		r.violate([]string{"C23", "C07"}, "state-changed-across-reopen", "the third session shows a different visible state: %s", d)
		return
	}
	for k, v := range probes {
		var got []byte
		err := db2.View(func(txn *badger.Txn) error {
			it, err := txn.Get([]byte(k))
			if err != nil {
				return err
			}
			got, err = it.ValueCopy(nil)
			return err
		})
		if err != nil || !bytes.Equal(got, v) {
			r.violate([]string{"C23"}, "probe-lost", "key %q written in the second session reads %s / %v in the third", k, short(got), err)
			return
		}
	}
	r.probe("enc_third_session_verified")
}
