package sim

import (
	"fmt"
	"hash/fnv"
	"math/rand"
	"os"
	"runtime"
	"sort"
	"strings"
	"sync"
	"sync/atomic"
	"testing/synctest"
	"time"

	"github.com/dgraph-io/badger/v4/vhook"
)

// Sched is the schedule part of a case: an explicit decision prefix followed by
// either the "sequential" default (TailSeed == 0) or a PRNG-driven tail.
type Sched struct {
	Dec      []uint16 `json:"dec"`
	TailSeed uint64   `json:"tail_seed"`
	Preempt  int      `json:"preempt"`             // percent chance to switch goroutine per step in the tail
	ClockPct int      `json:"clock_pct,omitempty"` // percent chance per step to advance the simulated clock
	ClockMs  []int    `json:"clock_ms,omitempty"`  // candidate advances in milliseconds
	WmLeash  int      `json:"wm_leash,omitempty"`  // fairness leash of watermark goroutines (0 = 5 steps)
	// LockYield: percent chance that a goroutine arriving at a hooked lock acquisition
	// (db.lock, Sequence lock, merge operator lock, StreamWriter lock) yields although
	// the lock is free, i.e. lock acquisitions become preemption points.
	LockYield int `json:"lock_yield,omitempty"`
}

type parkedG struct {
	name   string
	site   string
	seq    uint64
	ch     chan struct{}
	try    func() bool
	passed int
	gid    int64
}

// Engine is the cooperative scheduler: exactly one released goroutine runs
// between two synctest.Wait() calls of the root goroutine.
type Engine struct {
	mu     sync.Mutex
	active atomic.Bool
	parked []*parkedG
	// free-running goroutines waiting for a lock (not part of the schedule)
	freeWaiters []*parkedG
	lockSeq     map[string]int // per goroutine name: number of hooked lock acquisitions so far
	wmBacklog   map[string]int // per watermark goroutine name: marks sent since it last ran
	names       map[int64]string
	autoRole    map[int64]string
	nameCount   map[string]int
	noYield     map[int64]int
	arrival     uint64

	sched   Sched
	di      int
	rng     *rand.Rand
	last    string
	enabled map[string]bool // site groups (role) enabled; nil = all

	Steps      uint64
	Decisions  uint64
	traceHash  uint64
	TraceLog   []string // only when KeepTrace
	KeepTrace  bool
	SiteHits   map[string]uint64
	Switches   uint64
	ClockAdv   time.Duration
	fairnessK  int
	DumpAtStep uint64
	ClockJumps uint64
	Forced     uint64
	idleRounds int

	rootGid int64
	// Sequential forces the default policy (no decision is consumed, no clock
	// jump): used for the deterministic pre-fill phase.
	Sequential bool

	// callbacks (called in the goroutine that hit the hook)
	OnEvent   func(gid int64, kind string, a, b uint64, key, val []byte)
	OnIO      func(gid int64, kind, path string, off, n int64)
	OnStep    func() // root goroutine, after each quiescence, before a decision
	ClockJump []time.Duration
	jumpsLeft int

	start time.Time
}

func NewEngine(s Sched, groups []string) *Engine {
	e := &Engine{
		names:     map[int64]string{},
		lockSeq:   map[string]int{},
		wmBacklog: map[string]int{},
		autoRole:  map[int64]string{},
		nameCount: map[string]int{},
		noYield:   map[int64]int{},
		sched:     s,
		SiteHits:  map[string]uint64{},
		fairnessK: 24,
	}
	if s.TailSeed != 0 {
		e.rng = rand.New(rand.NewSource(int64(s.TailSeed)))
	}
	if groups != nil {
		e.enabled = map[string]bool{}
		for _, g := range groups {
			e.enabled[g] = true
		}
	}
	h := fnv.New64a()
	e.traceHash = h.Sum64()
	return e
}

func role(site string) string {
	if i := strings.IndexByte(site, '.'); i >= 0 {
		return site[:i]
	}
	return site
}

func (e *Engine) mix(s string) {
	// FNV-1a continuation; no allocation.
	h := e.traceHash
	for i := 0; i < len(s); i++ {
		h ^= uint64(s[i])
		h *= 1099511628211
	}
	h ^= 0xff
	h *= 1099511628211
	e.traceHash = h
}

// TraceDigest identifies the interleaving (sequence of (goroutine, site) choices).
func (e *Engine) TraceDigest() uint64 { return e.traceHash }

// Install wires the engine into badger's vhook seams.
func (e *Engine) Install() {
	vhook.PointFn = e.point
	vhook.WaitLockFn = e.waitLock
	vhook.NoYieldFn = e.noYieldFn
	vhook.ChooseFn = e.choose
	vhook.EventFn = func(kind string, a, b uint64) {
		if f := e.OnEvent; f != nil {
			f(goid(), kind, a, b, nil, nil)
		}
	}
	vhook.EventKVFn = func(kind string, k, v []byte, a, b uint64) {
		if kind == "wm.begin" || kind == "wm.done" {
			// marks queued for the watermark goroutine of this name (its channel holds 100 and
			// Begin is sent under the oracle lock: see decideLocked)
			e.mu.Lock()
			e.wmBacklog["wm:"+string(k)]++
			e.mu.Unlock()
		}
		if f := e.OnEvent; f != nil {
			f(goid(), kind, a, b, k, v)
		}
	}
	vhook.IOFn = func(kind, path string, off, n int64) {
		if f := e.OnIO; f != nil {
			f(goid(), kind, path, off, n)
		}
	}
}

// Uninstall removes all hooks.
func Uninstall() {
	vhook.PointFn = nil
	vhook.WaitLockFn = nil
	vhook.NoYieldFn = nil
	vhook.ChooseFn = nil
	vhook.EventFn = nil
	vhook.EventKVFn = nil
	vhook.IOFn = nil
	vhook.SkipHeightFn = nil
	vhook.NowFn = nil
	vhook.FaultFn = nil
	vhook.EntryFn = nil
}

// Register names the calling goroutine (clients).
func (e *Engine) Register(name string) {
	g := goid()
	e.mu.Lock()
	e.names[g] = name
	e.mu.Unlock()
}

func (e *Engine) NameOf(gid int64) string {
	e.mu.Lock()
	defer e.mu.Unlock()
	return e.names[gid]
}

func (e *Engine) nameLocked(gid int64, site string, id uint64) string {
	if n, ok := e.names[gid]; ok {
		// an automatically named goroutine that later reports an actor id gets
		// the id appended once (e.g. commit callbacks: "txncb" -> "txncb#<commitTs>"),
		// so that goroutines of one role woken by the same event stay distinguishable
		if r, auto := e.autoRole[gid]; auto && id != 0 {
			n = fmt.Sprintf("%s#%d", r, id)
			e.names[gid] = n
			delete(e.autoRole, gid)
		}
		return n
	}
	r := site
	actor := ""
	if i := strings.IndexByte(site, ':'); i >= 0 {
		actor = site[i:]
		r = site[:i]
	}
	n := role(r) + actor
	if id != 0 {
		n = fmt.Sprintf("%s#%d", n, id)
	} else {
		e.autoRole[gid] = n
		// several goroutines of one role (e.g. merge operators on one key) are
		// told apart by their creation order, which is decided by the schedule
		if c := e.nameCount[n]; c > 0 {
			e.nameCount[n] = c + 1
			n = fmt.Sprintf("%s/%d", n, c)
		} else {
			e.nameCount[n] = 1
		}
	}
	e.names[gid] = n
	return n
}

func (e *Engine) point(site string, id uint64) {
	if !e.active.Load() {
		return
	}
	gid := goid()
	if gid == e.rootGid {
		return
	}
	e.mu.Lock()
	if !e.active.Load() || e.noYield[gid] > 0 {
		e.mu.Unlock()
		return
	}
	rl := role(site)
	if rl == "skl" && (e.enabled == nil || !e.enabled["skl"]) {
		// the per-CAS skiplist points are opt-in (C22 scenario only)
		e.mu.Unlock()
		return
	}
	if e.enabled != nil && !e.enabled[rl] && rl != "compactor" && rl != "merge" {
		// (ticker-driven goroutines always park at their tick: left free-running
		// they would spin through every tick of a long simulated clock jump)
		// still give the goroutine its stable name
		e.nameLocked(gid, site, id)
		e.mu.Unlock()
		return
	}
	p := &parkedG{name: e.nameLocked(gid, site, id), site: site, seq: e.arrival, ch: make(chan struct{}), gid: gid}
	e.arrival++
	e.parked = append(e.parked, p)
	e.mu.Unlock()
	<-p.ch
}

// SetGroups changes the enabled schedule-point roles (nil = all).
func (e *Engine) SetGroups(groups []string) {
	e.mu.Lock()
	defer e.mu.Unlock()
	if groups == nil {
		e.enabled = nil
		return
	}
	e.enabled = map[string]bool{}
	for _, g := range groups {
		e.enabled[g] = true
	}
}

// scheduledActorLocked: is this goroutine one whose points park (its role is enabled)?
func (e *Engine) scheduledActorLocked(gid int64) bool {
	name := e.names[gid]
	if name == "" {
		return false // never seen at a point: not an actor we schedule
	}
	if e.enabled == nil {
		return true
	}
	rl := name
	if i := strings.IndexAny(rl, ":#/"); i >= 0 {
		rl = rl[:i]
	}
	if e.enabled[rl] {
		return true
	}
	// harness goroutines (clients c<N>, closer, prefill, recover, subscriber callbacks)
	return e.enabled["client"] && (len(rl) >= 2 && rl[0] == 'c' && rl[1] >= '0' && rl[1] <= '9' || rl == "closer" || rl == "prefill" || rl == "recover")
}

// OnlyTickersParked reports whether nothing but ticker-driven goroutines
// (compactors, merge operators) is parked: the database is idle.
func (e *Engine) OnlyTickersParked() bool {
	e.mu.Lock()
	defer e.mu.Unlock()
	for _, p := range e.parked {
		if rl := role(p.site); rl != "compactor" && rl != "merge" {
			return false
		}
	}
	return true
}

// ParkedAt reports the site a named goroutine is currently parked at ("" = not parked).
func (e *Engine) ParkedAt(name string) string {
	e.mu.Lock()
	defer e.mu.Unlock()
	for _, p := range e.parked {
		if p.name == name {
			return p.site
		}
	}
	return ""
}

// Point lets harness code (clients) yield.
func (e *Engine) Point(site string) { e.point(site, 0) }

func (e *Engine) waitLock(site string, try func() bool) {
	if !e.active.Load() {
		return
	}
	gid := goid()
	if gid == e.rootGid {
		return
	}
	if try() {
		if e.sched.LockYield <= 0 || e.Sequential {
			return
		}
		e.mu.Lock()
		if !e.scheduledActorLocked(gid) {
			// free-running goroutines (role not in the enabled group) must not consume
			// decisions: when they get here is a real-time race
			e.mu.Unlock()
			return
		}
		// The yes/no comes from a hash of (seed, goroutine name, its n-th lock acquisition),
		// not from the shared decision stream: a goroutine woken by a channel operation
		// runs concurrently with the one that woke it, and the order in which the two
		// would draw from a shared stream is a real-time race.
		name := e.names[gid]
		e.lockSeq[name]++
		h := uint64(14695981039346656037) ^ e.sched.TailSeed
		for i := 0; i < len(name); i++ {
			h = (h ^ uint64(name[i])) * 1099511628211
		}
		h = (h ^ uint64(e.lockSeq[name])) * 1099511628211
		h ^= h >> 29
		if int(h%100) >= e.sched.LockYield || !e.active.Load() {
			e.mu.Unlock()
			return
		}
		e.mu.Unlock()
		// fall through: park like a waiter; it is released only at a moment when the
		// lock is free, and nobody else runs between its release and its Lock call
	}
	e.mu.Lock()
	if !e.active.Load() {
		e.mu.Unlock()
		return
	}
	if !e.scheduledActorLocked(gid) {
		// A free-running goroutine met a held lock (whether it does is a real-time race
		// with the goroutine that runs): it waits durably and is let go by the root at
		// the next quiescent moment at which the lock is free, without becoming a
		// scheduling step, so the schedule and its digest do not depend on that race.
		w := &parkedG{site: site, ch: make(chan struct{}), try: try, gid: gid}
		e.freeWaiters = append(e.freeWaiters, w)
		e.mu.Unlock()
		<-w.ch
		return
	}
	p := &parkedG{name: e.nameLocked(gid, site, 0), site: site, seq: e.arrival, ch: make(chan struct{}), try: try, gid: gid}
	e.arrival++
	e.parked = append(e.parked, p)
	e.mu.Unlock()
	<-p.ch
}

// useNoYield re-enables the NoYield sections of DropPrefix/DropAll. They were
// needed while some db.lock acquisitions had no WaitLock in front of them; now
// every one has, and a drop that polls (L0 stall) inside such a section would
// spin through every 10 ms of a simulated clock jump. Off by default: schedule
// points inside drops are ordinary scheduling steps.
var useNoYield = os.Getenv("VERIF_USE_NOYIELD") != ""

func (e *Engine) noYieldFn(delta int) {
	if !useNoYield {
		return
	}
	gid := goid()
	e.mu.Lock()
	e.noYield[gid] += delta
	if e.noYield[gid] <= 0 {
		delete(e.noYield, gid)
	}
	e.mu.Unlock()
}

// nextDecision returns a number in [0,n) and whether it came from the
// explicit/PRNG stream (false = default policy applies).
func (e *Engine) nextDecision(n int) (int, bool) {
	if e.di < len(e.sched.Dec) {
		d := int(e.sched.Dec[e.di]) % n
		e.di++
		return d, true
	}
	if e.rng != nil {
		return e.rng.Intn(n), true
	}
	return 0, false
}

func (e *Engine) choose(site string, n int) int {
	if !e.active.Load() || n <= 0 || e.Sequential {
		return -1
	}
	e.mu.Lock()
	defer e.mu.Unlock()
	d, _ := e.nextDecision(n)
	e.Decisions++
	e.mix("choose:" + site)
	e.mix(string(rune('0' + d)))
	if e.KeepTrace {
		e.TraceLog = append(e.TraceLog, fmt.Sprintf("choose %s -> %d/%d", site, d, n))
	}
	e.SiteHits["choose:"+site]++
	return d
}

// sleep advances the simulated clock by d. When the root's own timer fires,
// other timers due at the same instant may not have been run yet (their
// goroutines still count as durably blocked, so synctest.Wait would return
// too early); one more nanosecond of sleep lets every timer due "now" fire and
// its goroutine run to its next block before the root continues.
func (e *Engine) sleep(d time.Duration) {
	time.Sleep(d)
	time.Sleep(time.Nanosecond)
}

// Activate turns scheduling on; it must be called by the root goroutine before
// any client goroutine is started.
func (e *Engine) Activate() {
	e.rootGid = goid()
	e.active.Store(true)
}

// RunResult is reported by Run when nothing can make progress.
type RunResult struct {
	Deadlock   bool
	StepBudget bool
	Dump       string
}

// Run drives the schedule until done() reports true. It must be called from
// the bubble's root goroutine.
func (e *Engine) Run(done func() bool, maxSteps uint64) RunResult {
	e.Activate()
	idleSim := time.Duration(0)
	for {
		synctest.Wait()
		// let free-running lock waiters go, one at a time, while their lock is free
		for {
			var w *parkedG
			e.mu.Lock()
			for i, c := range e.freeWaiters {
				if c.try() {
					w = c
					e.freeWaiters = append(e.freeWaiters[:i], e.freeWaiters[i+1:]...)
					break
				}
			}
			e.mu.Unlock()
			if w == nil {
				break
			}
			if e.KeepTrace {
				e.TraceLog = append(e.TraceLog, fmt.Sprintf("free lock waiter released: %s at %s", e.names[w.gid], w.site))
			}
			close(w.ch)
			synctest.Wait()
		}
		if f := e.OnStep; f != nil {
			f()
		}
		if done() {
			return RunResult{}
		}
		if e.Steps >= maxSteps {
			return RunResult{StepBudget: true, Dump: e.describeParked()}
		}
		e.mu.Lock()
		elig := e.eligibleLocked()
		if len(elig) == 0 {
			e.mu.Unlock()
			// Nothing parked is runnable: let simulated time pass so that sleepers
			// and tickers fire. 10ms quanta first, then seconds.
			q := 10 * time.Millisecond
			if idleSim >= time.Second {
				q = time.Second
			}
			if idleSim > 90*time.Second {
				return RunResult{Deadlock: true, Dump: e.describeParked()}
			}
			idleSim += q
			e.ClockAdv += q
			if e.KeepTrace {
				e.TraceLog = append(e.TraceLog, fmt.Sprintf("idle +%v at %v", q, time.Now().UnixNano()))
			}
			e.sleep(q)
			continue
		}
		idleSim = 0
		if !e.Sequential && e.sched.ClockPct > 0 && len(e.sched.ClockMs) > 0 {
			if d, ok := e.nextDecision(100); ok && d < e.sched.ClockPct {
				i, _ := e.nextDecision(len(e.sched.ClockMs))
				adv := time.Duration(e.sched.ClockMs[i]) * time.Millisecond
				e.Decisions++
				e.ClockJumps++
				e.ClockAdv += adv
				e.mix("clock")
				if e.KeepTrace {
					e.TraceLog = append(e.TraceLog, fmt.Sprintf("clock +%v", adv))
				}
				e.mu.Unlock()
				e.sleep(adv)
				continue
			}
		}
		pick := e.decideLocked(elig)
		// remove from parked
		for i, p := range e.parked {
			if p == pick {
				e.parked = append(e.parked[:i], e.parked[i+1:]...)
				break
			}
		}
		e.Steps++
		e.SiteHits[pick.site]++
		if pick.name != e.last {
			e.Switches++
		}
		e.last = pick.name
		if strings.HasPrefix(pick.name, "wm:") && e.wmBacklog[pick.name] > 0 {
			e.wmBacklog[pick.name]-- // one mark per run of the watermark goroutine
		}
		e.mix(pick.name)
		e.mix(pick.site)
		if e.KeepTrace {
			var el []string
			for _, p := range elig {
				el = append(el, p.name+"@"+p.site)
			}
			e.TraceLog = append(e.TraceLog, fmt.Sprintf("%d run %s @ %s t=%d elig=%v", e.Steps, pick.name, pick.site, time.Now().UnixNano()%1000000000000, el))
		}
		e.mu.Unlock()
		if e.DumpAtStep != 0 && e.Steps == e.DumpAtStep {
			buf := make([]byte, 1<<20)
			n := runtime.Stack(buf, true)
			e.TraceLog = append(e.TraceLog, "STACKS\n"+string(buf[:n]))
		}
		close(pick.ch)
	}
}

func (e *Engine) eligibleLocked() []*parkedG {
	var elig []*parkedG
	for _, p := range e.parked {
		if p.try != nil && !p.try() {
			continue
		}
		elig = append(elig, p)
	}
	sort.Slice(elig, func(i, j int) bool {
		a, b := elig[i], elig[j]
		if a.name != b.name {
			return a.name < b.name
		}
		if a.site != b.site {
			return a.site < b.site
		}
		return a.seq < b.seq
	})
	return elig
}

func (e *Engine) decideLocked(elig []*parkedG) *parkedG {
	// fairness: anybody passed over too often is forced.
	var starving *parkedG
	for _, p := range elig {
		k := e.fairnessK
		if strings.HasPrefix(p.name, "wm:") {
			// The watermark channels hold 100 marks and Begin is sent under the
			// oracle lock: a starved watermark goroutine would wedge the bubble
			// (mutex waiters are not "durably blocked"). Several marks can be
			// produced per step, so these goroutines get a much shorter leash.
			// (at most ~2 marks per step: a leash of 30 stays below the capacity)
			k = 5
			if e.sched.WmLeash > 0 {
				k = e.sched.WmLeash
			}
			if e.wmBacklog[p.name] >= 60 {
				k = 0 // its channel is filling up (merge operators open many transactions per step): run it now
			}
		}
		if p.passed >= k && (starving == nil || p.passed-k > starving.passed-e.fairnessK) {
			starving = p
		}
	}
	var pick *parkedG
	switch {
	case starving != nil:
		pick = starving
		e.Forced++
	case len(elig) == 1:
		pick = elig[0]
	case e.Sequential:
		for _, p := range elig {
			if p.name == e.last {
				pick = p
				break
			}
		}
		if pick == nil {
			pick = elig[0]
		}
	default:
		inExplicit := e.di < len(e.sched.Dec)
		if !inExplicit && e.rng != nil {
			// PRNG tail: mostly keep running the same goroutine.
			if e.rng.Intn(100) >= e.sched.Preempt {
				for _, p := range elig {
					if p.name == e.last {
						pick = p
						break
					}
				}
			}
			if pick == nil {
				pick = elig[e.rng.Intn(len(elig))]
			}
		} else if d, ok := e.nextDecision(len(elig)); ok {
			pick = elig[d]
		} else {
			for _, p := range elig {
				if p.name == e.last {
					pick = p
					break
				}
			}
			if pick == nil {
				pick = elig[0]
			}
		}
		e.Decisions++
	}
	for _, p := range elig {
		if p != pick {
			p.passed++
		}
	}
	pick.passed = 0
	return pick
}

func (e *Engine) describeParked() string {
	e.mu.Lock()
	defer e.mu.Unlock()
	var sb strings.Builder
	for _, p := range e.parked {
		fmt.Fprintf(&sb, "%s@%s(try=%v) ", p.name, p.site, p.try != nil)
	}
	return sb.String()
}

// Stop deactivates scheduling and releases every parked goroutine; from then
// on all hooks are pass-through so that the run can be torn down.
func (e *Engine) Stop() {
	e.mu.Lock()
	e.active.Store(false)
	ps := append(e.parked, e.freeWaiters...)
	e.parked = nil
	e.freeWaiters = nil
	e.mu.Unlock()
	for _, p := range ps {
		close(p.ch)
	}
}

// AdvanceClock is called by the root goroutine (from OnStep) to jump time.
func (e *Engine) AdvanceClock(d time.Duration) {
	e.ClockAdv += d
	time.Sleep(d)
	synctest.Wait()
}
