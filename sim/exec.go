package sim

import (
	"bytes"
	"errors"
	"fmt"
	"math/rand"
	"os"
	"path/filepath"
	"regexp"
	"runtime"
	"sort"
	"strconv"
	"strings"
	"sync"
	"testing"
	"testing/synctest"
	"time"

	badger "github.com/dgraph-io/badger/v4"
	"github.com/dgraph-io/badger/v4/options"
	"github.com/dgraph-io/badger/v4/vhook"
	"github.com/dgraph-io/badger/v4/y"
)

// RunStats is what one run contributes to the evidence.
type RunStats struct {
	Steps      uint64            `json:"steps"`
	Decisions  uint64            `json:"decisions"`
	Switches   uint64            `json:"switches"`
	SimTime    time.Duration     `json:"sim_time_ns"`
	Digest     uint64            `json:"digest"`
	Probes     map[string]uint64 `json:"probes"`
	Ops        int               `json:"ops"`
	NonTrivial bool              `json:"non_trivial"`
	Known      map[string]uint64 `json:"known"`
	Checks     uint64            `json:"checks"`
}

type txnState struct {
	txn             *badger.Txn
	rw              bool
	readTs          uint64
	pending         map[string]WriteRec
	reads           map[string]bool // conflict-tracked read keys
	beginStep       uint64
	nCommitsAtBegin int
	held            *heldItem
}

type pendingCommit struct {
	writes        []WriteRec
	rec           *CommitRec
	opIdx         int
	readTs        uint64
	conflictBound uint64
	conflictIdx   int // managed mode: number of commits the oracle had seen when it reported the conflict
	batch         bool
	recs          []*CommitRec
}

type clientState struct {
	id        int
	gid       int64
	ops       []Op
	pc        int
	done      bool
	slots     [2]*txnState
	cur       *pendingCommit
	cbPending int
	extra     *extraState
}

// Run executes one Case.
type Run struct {
	pendingMts  map[uint64]int             // managed mode: commit timestamps chosen but not yet through the oracle
	compactGone map[string]map[uint64]bool // versions some compaction dropped
	compactKey  map[int64]*compactKeyState // per sub-compaction goroutine: the key being iterated
	subcompactD map[int64]uint64           // per sub-compaction goroutine: its discard timestamp
	encSt1      *recState
	encNeedles  map[string]string
	encKeys     []string
	encNKeyIDs  int
	encIVs      map[string]uint64 // C23: (data key id, IV) pairs seen so far
	encKeyIDs   map[uint64]bool
	// swFlushing: StreamWriter.Flush is running. Flush calls readTs() on the oracle it has
	// just stopped (a Begin nobody will ever process or match); those marks are not the new
	// oracle's and are ignored by the watermark invariant.
	swFlushing bool
	swst       *swState // StreamWriter scenario state (C26)
	c          *Case
	prof       *Profile
	e          *Engine
	db         *badger.DB
	dir        string
	vdir       string
	model      *Model
	mu         sync.Mutex
	viol       *Violation
	abort      bool
	cls        []*clientState
	byGid      map[int64]*clientState
	stats      RunStats
	hist       []string
	keepHist   bool

	lastAllocTs    uint64
	maxAckedTs     uint64
	inFlight       map[uint64]bool // commit ts allocated, not yet done
	heightRng      *rand.Rand
	startTime      time.Time
	extra          func(r *Run) // scenario-specific end-of-run checks (inside the bubble, DB open)
	harness        string
	pmu            sync.Mutex
	disk           *DiskTracker
	phase          string
	wms            map[string]*wmState
	curRec         map[int64]*CommitRec // commit whose entries are currently being reported, per goroutine
	subByGid       map[int64]*extraState
	subSeq         int
	seqSeen        map[string]map[uint64]string
	maxAppliedTs   uint64
	discardTs      uint64 // managed mode: highest value passed to SetDiscardTs
	usedTs         map[uint64]bool
	pendingVerify  []string
	gcMoved        map[string]map[uint64]bool // versions written back by a value-log GC rewrite
	droppedMarkers map[string][]uint64        // delete/expired markers discarded by compactions
	vlogEntries    map[uint32][]badger.VerifLogEntry
	backups        []*backupRec
	drops          []*dropRec
	dropsActive    int
	maxDiscardTs   uint64 // highest discard watermark any compaction used so far
	compactions    int
}

func dumpAllStacks() {
	buf := make([]byte, 1<<22)
	n := runtime.Stack(buf, true)
	os.Stderr.Write(buf[:n])
}

func (r *Run) probe(name string) {
	r.pmu.Lock()
	r.stats.Probes[name]++
	r.pmu.Unlock()
}

func (r *Run) violate(props []string, rule, format string, args ...interface{}) {
	r.mu.Lock()
	defer r.mu.Unlock()
	if r.viol != nil {
		return
	}
	r.viol = &Violation{Props: props, Rule: rule, Msg: r.tagKnownPatterns(fmt.Sprintf(format, args...)), Step: r.e.Steps}
	r.abort = true
}

// violateLocked is violate for callers that already hold r.mu.
func (r *Run) violateLocked(props []string, rule, format string, args ...interface{}) {
	if r.viol != nil {
		return
	}
	r.viol = &Violation{Props: props, Rule: rule, Msg: r.tagKnownPatterns(fmt.Sprintf(format, args...)), Step: r.e.Steps}
	r.abort = true
}

// tagKnownPatterns (r.mu held) appends a tag to a violation message when the
// event trace shows a specific, recorded cause; known_findings.jsonl matches on
// the tag, so that any other cause of the same symptom is still reported.
func (r *Run) tagKnownPatterns(msg string) string {
	for k, vers := range r.gcMoved {
		for v := range vers {
			for _, t := range r.droppedMarkers[k] {
				if t > v && strings.Contains(msg, fmt.Sprintf("%q@%d", k, v)) || t > v && strings.Contains(msg, fmt.Sprintf("%q)", k)) && strings.Contains(msg, fmt.Sprintf("ver=%d ", v)) {
					return msg + fmt.Sprintf(" [pattern: value-log GC wrote back %q@%d although a compaction had discarded the delete marker %q@%d that shadowed it]", k, v, k, t)
				}
			}
		}
	}
	// value-log GC keeps only the values of the versions it considers live (the newest one of
	// a key): an older version that the LSM tree still retains (NumVersionsToKeep > 1, or not
	// compacted yet) keeps its pointer into a file GC deleted, and an all-versions scan
	// returns it with an empty value and no error
	if m := reItemDiffers.FindStringSubmatch(msg); m != nil && strings.Contains(msg, "got {") && reEmptyGot.MatchString(msg) {
		if key, err := strconv.Unquote(m[1]); err == nil {
			ver, _ := strconv.ParseUint(m[2], 10, 64)
			r.pmu.Lock()
			gcRan := r.stats.Probes["gc_rewrote_file"] > 0
			r.pmu.Unlock()
			newer := false
			for _, v := range r.model.Keys[key] {
				if v.Ts > ver && r.model.live(&v) {
					newer = true
				}
			}
			if gcRan && newer {
				return msg + fmt.Sprintf(" [pattern: value of the non-newest version %q@%d is gone after value-log GC deleted its file]", key, ver)
			}
		}
	}
	// managed mode, non-monotonic commit timestamps: a write with an OLDER version was
	// committed AFTER a newer delete marker of the key, and a compaction discarded that
	// marker (it was at or below the discard timestamp and nothing older lay below it)
	if r.c.Cfg.Managed {
		for k, marks := range r.droppedMarkers {
			if !strings.Contains(msg, fmt.Sprintf("%q", k)) {
				continue
			}
			for _, t := range marks {
				ti, vi, vver := -1, -1, uint64(0)
				for ci, c := range r.model.Commits {
					for _, w := range c.Writes {
						if w.Key != k {
							continue
						}
						ver := c.Ts
						if w.Ver != 0 {
							ver = w.Ver
						}
						if ver == t && w.Del && ti < 0 {
							ti = ci
						}
						if ver < t && !w.Del && ti >= 0 && ci > ti && strings.Contains(msg, fmt.Sprintf("ver=%d ", ver)) {
							vi, vver = ci, ver
						}
					}
				}
				if ti >= 0 && vi > ti {
					return msg + fmt.Sprintf(" [pattern: managed-mode write %q@%d was committed after the newer delete marker %q@%d, which a compaction then discarded]", k, vver, k, t)
				}
			}
		}
	}
	return msg
}

func (r *Run) aborted() bool {
	r.mu.Lock()
	defer r.mu.Unlock()
	return r.abort
}

func (r *Run) setPhase(p string) {
	r.mu.Lock()
	r.phase = p
	r.mu.Unlock()
}

func (r *Run) logf(format string, args ...interface{}) {
	if r.keepHist {
		r.hist = append(r.hist, fmt.Sprintf("%d ", r.e.Steps)+fmt.Sprintf(format, args...))
		if logLive {
			fmt.Fprintf(os.Stderr, "  live: %d %s\n", r.e.Steps, fmt.Sprintf(format, args...))
		}
	}
}

var logLive = os.Getenv("VERIF_LOG_LIVE") != ""

var (
	reItemDiffers = regexp.MustCompile(`item ("(?:[^"\\]|\\.)*")@(\d+) differs from what was written`)
	reEmptyGot    = regexp.MustCompile(`got \{.* \[\] \d+ \d+ (true|false) (true|false) (true|false)\}`)
)

// watchdogAfter: real-time limit of one run (VERIF_WATCHDOG_S overrides, for the self-test of the stall handling).
func watchdogAfter() time.Duration {
	if v := os.Getenv("VERIF_WATCHDOG_S"); v != "" {
		var n int
		if _, err := fmt.Sscanf(v, "%d", &n); err == nil && n > 0 {
			return time.Duration(n) * time.Second
		}
	}
	return 120 * time.Second
}

func now() uint64 { return uint64(time.Now().Unix()) }

// BadgerOptions translates a Config.
func BadgerOptions(cfg *Config, dir, vdir string) badger.Options {
	opt := badger.DefaultOptions(dir)
	if cfg.InMemory {
		opt = badger.DefaultOptions("").WithInMemory(true)
	} else {
		opt.ValueDir = vdir
	}
	opt = opt.WithLoggingLevel(badger.ERROR)
	opt.Logger = nil
	opt.MetricsEnabled = false
	opt.MemTableSize = cfg.MemTableSize
	opt.NumMemtables = cfg.NumMemtables
	opt.ValueThreshold = cfg.ValueThreshold
	opt.VLogPercentile = cfg.VLogPercentile
	opt.ValueLogFileSize = 1 << 20
	opt.ValueLogMaxEntries = cfg.ValueLogMaxEntries
	opt.NumVersionsToKeep = cfg.NumVersionsToKeep
	opt.DetectConflicts = cfg.DetectConflicts
	opt.SyncWrites = cfg.SyncWrites
	opt.Compression = options.CompressionType(cfg.Compression)
	if cfg.EncKeyLen > 0 {
		opt.EncryptionKey = encKey(cfg.EncKeyLen, cfg.EncKeyVariant)
		if cfg.EncRotS > 0 {
			opt.EncryptionKeyRotationDuration = time.Duration(cfg.EncRotS) * time.Second
		}
		if cfg.EncRotMs > 0 {
			opt.EncryptionKeyRotationDuration = time.Duration(cfg.EncRotMs) * time.Millisecond
		}
	}
	opt.BlockCacheSize = 0
	if cfg.BlockCache || cfg.Compression != 0 || cfg.EncKeyLen > 0 {
		opt.BlockCacheSize = 1 << 20
	}
	opt.IndexCacheSize = 0
	if cfg.IndexCache || cfg.EncKeyLen > 0 {
		opt.IndexCacheSize = 1 << 20
	}
	opt.BlockSize = cfg.BlockSize
	opt.BloomFalsePositive = cfg.Bloom
	opt.BaseTableSize = cfg.BaseTableSize
	opt.BaseLevelSize = cfg.BaseLevelSize
	opt.LevelSizeMultiplier = cfg.LevelMult
	opt.TableSizeMultiplier = cfg.TableMult
	opt.MaxLevels = cfg.MaxLevels
	opt.NumLevelZeroTables = cfg.L0Tables
	opt.NumLevelZeroTablesStall = cfg.L0Stall
	opt.NumCompactors = cfg.NumCompactors
	opt.CompactL0OnClose = cfg.CompactL0OnClose
	opt.LmaxCompaction = cfg.LmaxCompaction
	opt.VerifyValueChecksum = cfg.VerifyValueChecksum
	opt.ChecksumVerificationMode = options.ChecksumVerificationMode(cfg.ChecksumMode)
	opt.NumGoroutines = 2
	return opt
}

func (r *Run) open() error {
	opt := BadgerOptions(&r.c.Cfg, r.dir, r.vdir)
	var err error
	if r.c.Cfg.Managed {
		r.db, err = badger.OpenManaged(opt)
	} else {
		r.db, err = badger.Open(opt)
	}
	return err
}

// onEvent receives badger's semantic trace events (in the emitting goroutine).
func (r *Run) onEvent(gid int64, kind string, a, b uint64, key, val []byte) {
	if r.keepHist && os.Getenv("VERIF_LOG_EVENTS") != "" {
		r.logf("event %s a=%d b=%d key=%q gid-name=%s", kind, a, b, key, r.e.NameOf(gid))
	}
	switch kind {
	case "commitTs":
		r.mu.Lock()
		cl := r.byGid[gid]
		r.mu.Unlock()
		if !r.c.Cfg.Managed {
			if a <= r.lastAllocTs {
				r.violate([]string{"C03"}, "ts-unique-increasing", "commit ts %d allocated after %d", a, r.lastAllocTs)
			}
			r.lastAllocTs = a
		}
		rec := &CommitRec{Client: -1, Ts: a, ReadTs: b, TsStep: r.e.Steps}
		if cl != nil && cl.cur != nil {
			rec.Client, rec.OpIdx = cl.id, cl.cur.opIdx
			cl.cur.rec = rec
			cl.cur.recs = append(cl.cur.recs, rec)
		}
		r.mu.Lock()
		r.model.AddCommit(rec)
		r.inFlight[a] = true
		r.curRec[gid] = rec
		r.mu.Unlock()
	case "conflict":
		r.mu.Lock()
		cl := r.byGid[gid]
		r.mu.Unlock()
		if cl != nil && cl.cur != nil {
			cl.cur.conflictBound = a
			r.mu.Lock()
			cl.cur.conflictIdx = len(r.model.Commits)
			r.mu.Unlock()
		}
	case "commitFailed":
		r.mu.Lock()
		r.model.FailCommit(a)
		delete(r.inFlight, a) // nothing of it will be applied
		r.mu.Unlock()
	case "commitDone":
		r.mu.Lock()
		delete(r.inFlight, a)
		if a > r.maxAppliedTs {
			r.maxAppliedTs = a
		}
		for _, c := range r.model.Commits {
			if c.Ts == a && c.Client < 0 {
				c.Acked = true // internal commits (batches, sequences, merge Adds) have no client ack
			}
		}
		r.mu.Unlock()
	case "sub.registered":
		r.mu.Lock()
		if ex := r.subByGid[gid]; ex != nil {
			ex.subRegTs = r.lastAllocTs + 1
		}
		r.mu.Unlock()
	case "readTs":
		r.mu.Lock()
		n := len(r.inFlight)
		r.mu.Unlock()
		if n > 0 {
			r.probe("begin_while_commit_in_flight")
		}
	case "wm.begin":
		r.mu.Lock()
		if r.swFlushing {
			r.mu.Unlock()
			break
		}
		w := r.wm(string(key))
		w.open[a]++
		w.begun[a] = true
		r.mu.Unlock()
	case "wm.done":
		r.mu.Lock()
		w := r.wm(string(key))
		w.open[a]--
		if w.open[a] <= 0 {
			delete(w.open, a)
			// all Begins of this index emitted so far are matched: from this prefix
			// of the mark stream on, the index may be reported as done.
			w.zeroSeen[a] = true
		}
		r.mu.Unlock()
	case "wm.advance":
		// C34: a watermark never reports an index as done while a begun index at
		// or below it is pending. The process goroutine lags behind the callers,
		// so the claim is about the prefix of marks it has consumed: an index in
		// (old, new] that was ever begun must have reached "every Begin so far
		// matched by a Done" at some earlier point. (A Begin of an index issued
		// after that point re-begins an index the mark may already cover.)
		r.mu.Lock()
		w := r.wm(string(key))
		var bad uint64
		for idx := range w.begun {
			if idx > a && idx <= b && !w.zeroSeen[idx] && (bad == 0 || idx < bad) {
				bad = idx
			}
		}
		for idx := range w.begun {
			if idx <= b {
				delete(w.begun, idx)
				delete(w.zeroSeen, idx)
			}
		}
		r.mu.Unlock()
		r.probe("watermark_advanced")
		if bad != 0 {
			r.violate([]string{"C34"}, "watermark-advanced-past-pending", "watermark %s advanced from %d to %d while index %d was begun and never done", key, a, b, bad)
		}
	case "compact.sub":
		r.logf("compaction %s", key)
	case "gc.moved":
		r.mu.Lock()
		if r.gcMoved[string(key)] == nil {
			r.gcMoved[string(key)] = map[uint64]bool{}
		}
		r.gcMoved[string(key)][a] = true
		r.mu.Unlock()
		r.probe("gc_moved_entries")
	case "compact.dropMarker":
		r.mu.Lock()
		r.droppedMarkers[string(key)] = append(r.droppedMarkers[string(key)], a)
		r.mu.Unlock()
		r.probe("tombstone_dropped")
		r.logf("compaction dropped delete/expired marker %q@%d", key, a)
	case "compact.discardTs":
		r.mu.Lock()
		if a > r.maxDiscardTs {
			r.maxDiscardTs = a
		}
		// a new sub-compaction starts in this goroutine: close the previous key's record
		r.compactKeyDoneLocked(gid)
		r.subcompactD[gid] = a
		r.mu.Unlock()
	case "compact.entry":
		// local retention oracle (C13): what ONE compaction does with the versions of a key
		// it iterates over must follow the retention rule, whatever other levels still hold
		r.mu.Lock()
		st := r.compactKey[gid]
		if st == nil || st.key != string(key) {
			r.compactKeyDoneLocked(gid)
			st = &compactKeyState{key: string(key)}
			r.compactKey[gid] = st
		}
		st.ents = append(st.ents, compactEnt{ver: a, flags: b})
		if b&1 == 0 {
			if r.compactGone[string(key)] == nil {
				r.compactGone[string(key)] = map[uint64]bool{}
			}
			r.compactGone[string(key)][a] = true
		}
		r.mu.Unlock()
	case "compact.filled":
		r.setPhase("compaction")
		th, nx := int(a>>8), int(a&0xff)
		switch {
		case th == 0 && nx == 0:
			r.probe("compact_L0_to_L0")
		case th == 0:
			r.probe("compact_L0_to_Lbase")
		case th == nx:
			r.probe("compact_Lmax_to_Lmax")
		default:
			r.probe("compact_Ln_to_Ln1")
		}
		if b&0xffff >= 3 {
			r.probe("compact_split_subcompactions")
		}
	case "compact.done":
		r.mu.Lock()
		for g := range r.compactKey { // the sub-compactions of this compaction have ended
			r.compactKeyDoneLocked(g)
		}
		r.mu.Unlock()
		r.setPhase("")
		r.probe("compaction_done")
		if b&0xffff >= 2 {
			r.probe("compaction_multi_table_output")
		}
		if b>>16&0xffff >= 1 {
			r.probe("compaction_with_bottom_tables")
		}
		r.mu.Lock()
		r.compactions++
		r.mu.Unlock()
	case "enc.iv":
		r.onEncIV(key, a, b)
	case "levels.baseClamped":
		r.probe("base_level_clamped_to_nonempty_level")
	case "compact.l0l0":
		// reach of the L0->L0 picker: how many idle, old-enough tables worker 0 found
		r.probe("l0l0_attempts")
		switch {
		case a >= 4:
			r.probe("l0l0_attempts_with_4plus_eligible")
		case a >= 2:
			r.probe("l0l0_attempts_with_2to3_eligible")
		}
		if b&0xffff >= 5 {
			r.probe("l0l0_attempts_with_5plus_L0_tables")
			r.pmu.Lock()
			r.stats.Probes["l0l0_excluded_young"] += b >> 16 & 0xffff
			r.stats.Probes["l0l0_excluded_busy"] += b >> 32 & 0xffff
			r.stats.Probes["l0l0_excluded_big"] += b >> 48
			r.pmu.Unlock()
		}
	case "l0.stall":
		r.probe("l0_stall_poll")
		if os.Getenv("VERIF_DEBUG_STALL") != "" {
			r.pmu.Lock()
			n := r.stats.Probes["l0_stall_poll"]
			r.pmu.Unlock()
			if n == 100000 {
				fmt.Fprintf(os.Stderr, "DEBUG_STALL at step %d active=%v\n", r.e.Steps, r.e.active.Load())
				dumpAllStacks()
			}
		}
	case "mt.rotate":
		r.probe("memtable_rotated")
	case "flush.done":
		r.probe("memtable_flushed")
	}
}

type compactEnt struct {
	ver   uint64
	flags uint64 // bit0 kept, bit1 deleted-or-expired, bit2 discard-earlier, bit3 merge entry
}

type compactKeyState struct {
	key  string
	ents []compactEnt // in iteration order: newest version first
}

// compactKeyDoneLocked evaluates the finished key of one sub-compaction goroutine against
// the retention rule: every version above the discard timestamp and every merge entry is
// kept; at or below it the newest NumVersionsToKeep versions are kept, stopping at (and
// after) a deleted/expired version or one with the discard-earlier bit. Keeping more is
// fine; dropping one of these is a violation.
func (r *Run) compactKeyDoneLocked(gid int64) {
	st := r.compactKey[gid]
	delete(r.compactKey, gid)
	if st == nil || r.viol != nil {
		return
	}
	D, ok := r.subcompactD[gid]
	if !ok {
		return
	}
	N := r.c.Cfg.NumVersionsToKeep
	count, stop := 0, false
	for _, e := range st.ents {
		kept := e.flags&1 != 0
		must := false
		switch {
		case e.flags&8 != 0: // merge entries are never dropped
			must = true
		case e.ver > D:
			must = true
		case stop:
		default:
			count++
			if e.flags&2 != 0 {
				stop = true // the marker itself may go when nothing lies below
			} else {
				must = true
				if e.flags&4 != 0 || count >= N {
					stop = true
				}
			}
		}
		if must && !kept {
			r.probeLocked("compaction_retention_checked")
			r.violateLocked([]string{"C13", "C12"}, "compaction-dropped-retained-version", "a compaction (discard timestamp %d, NumVersionsToKeep=%d) dropped %q@%d, which its retention rule keeps; versions it iterated over, newest first (ver:flags, bit0 kept, bit1 deleted/expired, bit2 discard-earlier, bit3 merge): %s", D, N, st.key, e.ver, fmtCompactEnts(st.ents))
			return
		}
	}
	r.probeLocked("compaction_retention_checked")
	// A dropped delete/expired marker must not uncover anything: the newest version of
	// the key below the marker that still exists OUTSIDE this compaction (it is not among
	// the versions iterated here and no earlier compaction dropped it) must not be a live
	// value. (Managed mode is excluded: non-monotonic timestamps, see the known finding.)
	if r.c.Cfg.Managed {
		return
	}
	// keys a DropPrefix/DropAll touched: whether a commit that raced with the drop was
	// wiped or survived is legitimately open (C29 decides those), so the model cannot say
	// which older versions exist
	for _, d := range r.drops {
		if d.all {
			return
		}
		for _, p := range d.prefixes {
			if strings.HasPrefix(st.key, string(p)) {
				return
			}
		}
	}
	inThis := map[uint64]bool{}
	for _, e := range st.ents {
		inThis[e.ver] = true
	}
	tnow := now()
	for _, e := range st.ents {
		if e.flags&1 != 0 {
			break // a newer version of the key was kept: it shadows whatever lies below
		}
		if e.flags&2 == 0 || e.ver > D {
			continue
		}
		vs := r.model.Keys[st.key]
		for i := len(vs) - 1; i >= 0; i-- {
			v := &vs[i]
			if v.Ts >= e.ver || !r.model.live(v) || inThis[v.Ts] || r.compactGone[st.key][v.Ts] {
				continue
			}
			if c := r.model.Commits[v.Commit]; !c.Acked && r.inFlight[c.Ts] {
				continue // not applied yet
			}
			// newest surviving version below the marker, outside this compaction
			if !v.Del && !expired(v.Exp, tnow) {
				r.probeLocked("tombstone_drop_checked")
				r.violateLocked([]string{"C12", "C33"}, "tombstone-dropped-over-surviving-version", "a compaction (discard timestamp %d) dropped the delete/expired marker %q@%d although the older version %q@%d still exists outside the tables it compacted (it did not iterate over it and no earlier compaction dropped it): the key becomes visible again", D, st.key, e.ver, st.key, v.Ts)
				return
			}
			break
		}
		r.probeLocked("tombstone_drop_checked")
		break // only the first dropped marker of the key matters
	}
}

func fmtCompactEnts(es []compactEnt) string {
	var sb strings.Builder
	for _, e := range es {
		fmt.Fprintf(&sb, "%d:%d ", e.ver, e.flags)
	}
	return sb.String()
}

type wmState struct {
	open     map[uint64]int
	begun    map[uint64]bool
	zeroSeen map[uint64]bool
}

func (r *Run) wm(name string) *wmState {
	w := r.wms[name]
	if w == nil {
		w = &wmState{open: map[uint64]int{}, begun: map[uint64]bool{}, zeroSeen: map[uint64]bool{}}
		r.wms[name] = w
	}
	return w
}

// onEntry receives every entry of a commit right after its timestamp was
// allocated (vhook.Entry): this is what the model is built from.
func (r *Run) onEntry(kind string, key, val []byte, version uint64, meta, um byte, exp uint64) {
	gid := goid()
	r.mu.Lock()
	defer r.mu.Unlock()
	rec := r.curRec[gid]
	if rec == nil {
		return
	}
	w := WriteRec{Key: string(key), Val: append([]byte{}, val...), UM: um, Exp: exp, Del: meta&1 != 0, Disc: meta&4 != 0, Merge: meta&8 != 0, Ver: version}
	if w.Del {
		w.Val = nil
	}
	r.model.AddWrite(rec, w)
}

func (r *Run) key(i int) []byte { return r.c.KeyBytes(i) }

// iterPrefix: the iterator's Prefix option (a key, or its first PrefixLen bytes).
func (r *Run) iterPrefix(it *IterSpec) []byte {
	k := r.key(it.Prefix)
	if it.PrefixLen > 0 && it.PrefixLen < len(k) {
		return append([]byte{}, k[:it.PrefixLen]...)
	}
	return k
}

// ---------- client op execution ----------

func (r *Run) clientLoop(cl *clientState) {
	r.e.Register(fmt.Sprintf("c%d", cl.id))
	r.mu.Lock()
	cl.gid = goid()
	r.byGid[cl.gid] = cl
	r.mu.Unlock()
	defer func() {
		// discard whatever is left open so that Close can proceed
		r.stopExtras(cl)
		for s := range cl.slots {
			if ts := cl.slots[s]; ts != nil {
				ts.releaseHeld()
				ts.txn.Discard()
				cl.slots[s] = nil
			}
		}
		r.mu.Lock()
		cl.done = true
		r.mu.Unlock()
	}()
	for cl.pc = 0; cl.pc < len(cl.ops); cl.pc++ {
		r.e.Point("client.op")
		if r.aborted() {
			return
		}
		r.stats.Ops++
		r.doOp(cl, cl.pc, &cl.ops[cl.pc])
	}
}

func (r *Run) doOp(cl *clientState, idx int, op *Op) {
	switch op.K {
	case "begin":
		r.opBegin(cl, idx, op)
	case "get":
		r.opGet(cl, idx, op)
	case "set", "del":
		r.opWrite(cl, idx, op)
	case "iter":
		r.opIter(cl, idx, op)
	case "commit", "commitWith":
		r.opCommit(cl, idx, op)
	case "discard":
		if ts := cl.slots[op.S]; ts != nil {
			ts.releaseHeld()
			ts.txn.Discard()
			cl.slots[op.S] = nil
			r.logf("c%d discard s%d", cl.id, op.S)
		}
	default:
		if f := extraOps[op.K]; f != nil {
			f(r, cl, idx, op)
		}
	}
}

// extraOps lets other files add op kinds.
var extraOps = map[string]func(r *Run, cl *clientState, idx int, op *Op){}

func (r *Run) opBegin(cl *clientState, idx int, op *Op) {
	if cl.slots[op.S] != nil {
		return
	}
	r.mu.Lock()
	ackedBefore := r.maxAckedTs
	ncommits := len(r.model.Commits)
	r.mu.Unlock()
	var txn *badger.Txn
	if r.c.Cfg.Managed {
		txn = r.db.NewTransactionAt(op.Ts, op.RW)
	} else {
		txn = r.db.NewTransaction(op.RW)
	}
	ts := &txnState{txn: txn, rw: op.RW, readTs: txn.ReadTs(), pending: map[string]WriteRec{}, reads: map[string]bool{}, beginStep: r.e.Steps, nCommitsAtBegin: ncommits}
	cl.slots[op.S] = ts
	r.logf("c%d begin s%d rw=%v readTs=%d", cl.id, op.S, op.RW, ts.readTs)
	if !r.c.Cfg.Managed {
		// C03: a transaction started after Commit returned nil sees that commit.
		if ts.readTs < ackedBefore {
			r.violate([]string{"C03", "C34"}, "begin-after-ack", "c%d began with readTs=%d although a commit with ts=%d had already been acknowledged", cl.id, ts.readTs, ackedBefore)
		}
		// C34: no commit at or below readTs may still be in flight.
		r.mu.Lock()
		var bad uint64
		for t := range r.inFlight {
			if t <= ts.readTs && (bad == 0 || t < bad) {
				bad = t
			}
		}
		r.mu.Unlock()
		if bad != 0 {
			r.violate([]string{"C34", "C03"}, "begin-while-applying", "c%d got readTs=%d while commit ts=%d was still being applied", cl.id, ts.readTs, bad)
		}
	}
}

type observed struct {
	found    bool
	val      []byte
	um       byte
	exp      uint64
	ver      uint64
	disc     bool
	delOrExp bool
}

func (o observed) String() string {
	if !o.found {
		return "<absent>"
	}
	return fmt.Sprintf("{ver=%d val=%s um=%d exp=%d}", o.ver, short(o.val), o.um, o.exp)
}

func readItem(item *badger.Item, how int) (observed, error) {
	o := observed{found: true, um: item.UserMeta(), exp: item.ExpiresAt(), ver: item.Version(), disc: item.DiscardEarlierVersions(), delOrExp: item.IsDeletedOrExpired()}
	var err error
	switch how {
	case 1:
		err = item.Value(func(v []byte) error {
			o.val = append([]byte{}, v...)
			return nil
		})
	default:
		o.val, err = item.ValueCopy(nil)
	}
	return o, err
}

func (r *Run) opGet(cl *clientState, idx int, op *Op) {
	ts := cl.slots[op.S]
	if ts == nil {
		return
	}
	key := r.key(op.Key)
	item, err := ts.txn.Get(key)
	tnow := now()
	r.stats.Checks++
	var o observed
	if err == nil {
		o, err = readItem(item, 1+idx%2)
		if err != nil {
			r.violate([]string{"C01", "C06"}, "value-read-error", "c%d Get(%q) found the key but reading its value failed: %v", cl.id, key, err)
			return
		}
	} else if !errors.Is(err, badger.ErrKeyNotFound) {
		r.violate([]string{"C01"}, "get-error", "c%d Get(%q) unexpected error: %v", cl.id, key, err)
		return
	}
	r.logf("c%d get s%d %q -> %v", cl.id, op.S, key, o)
	if w, ok := ts.pending[string(key)]; ok && ts.rw {
		// C04: own pending write
		exp := !w.Del && !expired(w.Exp, tnow)
		if exp != o.found {
			r.violate([]string{"C04"}, "own-write-get", "c%d Get(%q) in rw txn: pending write %+v but found=%v", cl.id, key, descW(w), o.found)
			return
		}
		if o.found && (!bytes.Equal(o.val, w.Val) || o.um != w.UM || o.exp != w.Exp) {
			r.violate([]string{"C04"}, "own-write-get", "c%d Get(%q): pending write %s but got %v", cl.id, key, descW(w), o)
		}
		return
	}
	if ts.rw {
		ts.reads[string(key)] = true
	}
	if r.c.Cfg.Managed {
		r.compareManagedRead(cl, key, ts.readTs, tnow, o)
		return
	}
	r.mu.Lock()
	if nv := r.model.Newest(string(key), ts.readTs); nv != nil && !nv.Del && expired(nv.Exp, tnow) {
		r.probe("expiry_crossed")
	}
	want := r.model.Read(string(key), ts.readTs, tnow)
	if len(r.model.Commits) > ts.nCommitsAtBegin && r.c.Cfg.NumCompactors == 0 {
		r.stats.NonTrivial = true
	}
	if r.compactions > 0 {
		r.stats.NonTrivial = true
	}
	var wantCopy Version
	if want != nil {
		wantCopy = *want
	}
	r.mu.Unlock()
	r.compareRead("get", cl, key, ts.readTs, want != nil, &wantCopy, o)
}

// compareManagedRead is the managed-mode (C36) read oracle: the result must be
// the newest write at or below the read timestamp among the commits that were
// acknowledged before the read, where a commit still in flight may or may not
// be visible yet. Reads below the discard timestamp are outside the claim.
func (r *Run) compareManagedRead(cl *clientState, key []byte, readTs, tnow uint64, o observed) {
	r.mu.Lock()
	defer r.mu.Unlock()
	if readTs < r.discardTs {
		r.probeLocked("managed_read_below_discard_ts")
		return
	}
	vs := r.model.Keys[string(key)]
	// walk newest -> oldest among versions <= readTs; in-flight ones are optional
	okAbsent := true
	for i := len(vs) - 1; i >= 0; i-- {
		v := &vs[i]
		if v.Ts > readTs || !r.model.live(v) {
			continue
		}
		c := r.model.Commits[v.Commit]
		visible := !v.Del && !expired(v.Exp, tnow)
		if visible && o.found && bytes.Equal(o.val, v.Val) && o.ver == v.Ts && o.um == v.UM && o.exp == v.Exp {
			r.probeLocked("managed_read_checked")
			return
		}
		if !visible && !o.found {
			return
		}
		if !c.Acked {
			// the write that replaced an earlier one at the same key+version is
			// still in flight: the earlier one may still be what is stored
			for j := range v.Older {
				ov := &v.Older[j]
				if !ov.Del && o.found && bytes.Equal(o.val, ov.Val) && o.ver == ov.Ts {
					r.probeLocked("managed_read_checked")
					return
				}
				if ov.Del && !o.found {
					return
				}
			}
		}
		if c.Acked {
			// this version is definitely applied: nothing older may show through
			okAbsent = false
			break
		}
	}
	if !o.found && okAbsent {
		return
	}
	var hist []string
	for i := len(vs) - 1; i >= 0 && len(hist) < 6; i-- {
		if vs[i].Ts <= readTs {
			hist = append(hist, fmt.Sprintf("%s(acked=%v)", (&vs[i]).String(), r.model.Commits[vs[i].Commit].Acked))
		}
	}
	r.violateLocked([]string{"C36", "C01"}, "managed-read", "c%d read of %q at ts=%d returned %v; versions at or below it (newest first): %v", cl.id, key, readTs, o, hist)
}

func (r *Run) probeLocked(name string) {
	r.pmu.Lock()
	r.stats.Probes[name]++
	r.pmu.Unlock()
}

func descW(w WriteRec) string {
	if w.Del {
		return "DEL"
	}
	return fmt.Sprintf("{val=%s um=%d exp=%d}", short(w.Val), w.UM, w.Exp)
}

func (r *Run) compareRead(what string, cl *clientState, key []byte, readTs uint64, wantFound bool, want *Version, o observed) {
	if len(r.drops) > 0 && r.dropTouches(string(key)) {
		// DropPrefix/DropAll are documented as not safe against concurrent reads of
		// the dropped range, and a transaction that began before the drop may see
		// either state: reads of dropped ranges are checked by the drop op itself.
		r.probe("read_of_dropped_range_skipped")
		return
	}
	if wantFound != o.found {
		w := "<absent>"
		if wantFound {
			w = want.String()
		}
		r.violate([]string{"C01", "C03", "C12", "C15", "C33", "C29", "C37"}, "snapshot-read", "c%d %s(%q)@%d: model says %s, badger returned %v", cl.id, what, key, readTs, w, o)
		return
	}
	if !o.found {
		return
	}
	if !bytes.Equal(o.val, want.Val) {
		r.violate([]string{"C01", "C03", "C06", "C12", "C15", "C29", "C37"}, "snapshot-read", "c%d %s(%q)@%d: model says %s, badger returned %v", cl.id, what, key, readTs, want, o)
		return
	}
	if o.um != want.UM || o.exp != want.Exp || o.ver != want.Ts || o.disc != want.Disc {
		r.violate([]string{"C06", "C01"}, "metadata", "c%d %s(%q)@%d: model says %s disc=%v, badger returned %v disc=%v", cl.id, what, key, readTs, want, want.Disc, o, o.disc)
	}
}

func (r *Run) opWrite(cl *clientState, idx int, op *Op) {
	ts := cl.slots[op.S]
	if ts == nil || !ts.rw {
		return
	}
	key := r.key(op.Key)
	var err error
	w := WriteRec{Key: string(key)}
	if op.K == "del" {
		w.Del = true
		err = ts.txn.Delete(key)
	} else {
		w.Val = MakeValue(cl.id, idx, 0, op.Sz)
		w.UM = op.UM
		e := badger.NewEntry(key, w.Val).WithMeta(op.UM)
		if op.TTL > 0 {
			e = e.WithTTL(time.Duration(op.TTL) * time.Second)
			w.Exp = uint64(time.Now().Add(time.Duration(op.TTL) * time.Second).Unix())
		}
		if op.Disc {
			e = e.WithDiscard()
			w.Disc = true
		}
		err = ts.txn.SetEntry(e)
	}
	r.logf("c%d %s s%d %q %s err=%v", cl.id, op.K, op.S, key, descW(w), err)
	if err != nil {
		if errors.Is(err, badger.ErrTxnTooBig) {
			r.probe("txn_too_big")
			return
		}
		r.violate([]string{"C04"}, "write-error", "c%d %s(%q) unexpected error: %v", cl.id, op.K, key, err)
		return
	}
	ts.pending[string(key)] = w
}

func (r *Run) opCommit(cl *clientState, idx int, op *Op) {
	ts := cl.slots[op.S]
	if ts == nil {
		return
	}
	cl.slots[op.S] = nil
	ts.releaseHeld()
	pc := &pendingCommit{opIdx: idx, readTs: ts.readTs}
	keys := make([]string, 0, len(ts.pending))
	for k := range ts.pending {
		keys = append(keys, k)
	}
	sort.Strings(keys)
	for _, k := range keys {
		pc.writes = append(pc.writes, ts.pending[k])
	}
	// expected conflict (C02): a commit whose ts lies in (readTs, bound) wrote a
	// key we read, where bound is our own commit ts (accepted) or the oracle's
	// next ts at the moment of rejection (reported by the "conflict" event).
	witnessBelow := func(bound uint64) string {
		if !(ts.rw && len(pc.writes) > 0 && r.c.Cfg.DetectConflicts && !r.c.Cfg.Managed) {
			return ""
		}
		r.mu.Lock()
		defer r.mu.Unlock()
		for _, c := range r.model.Commits {
			if c.Ts <= ts.readTs || c.Ts >= bound {
				continue
			}
			for _, w := range c.Writes {
				if ts.reads[w.Key] {
					return fmt.Sprintf("commit ts=%d wrote %q", c.Ts, w.Key)
				}
			}
		}
		return ""
	}
	// managed mode: the oracle compares with every commit it accepted earlier whose
	// (caller-chosen) timestamp is above our read timestamp. Defined only while the
	// discard timestamp has not been raised above our read timestamp.
	managedWitness := func(before int) (string, bool) {
		if !(ts.rw && len(pc.writes) > 0 && r.c.Cfg.DetectConflicts && r.c.Cfg.Managed) {
			return "", false
		}
		r.mu.Lock()
		defer r.mu.Unlock()
		if r.discardTs > ts.readTs {
			return "", false
		}
		for i, c := range r.model.Commits {
			if i >= before {
				break
			}
			if c.Ts <= ts.readTs {
				continue
			}
			for _, w := range c.Writes {
				if ts.reads[w.Key] {
					return fmt.Sprintf("commit ts=%d wrote %q", c.Ts, w.Key), true
				}
			}
		}
		return "", true
	}
	finish := func(err error) {
		acked := err == nil
		r.logf("c%d %s s%d -> err=%v ts=%v", cl.id, op.K, op.S, err, tsOf(pc))
		if len(pc.writes) == 0 || !ts.rw {
			if err != nil {
				r.violate([]string{"C02"}, "empty-commit-error", "c%d commit without writes returned %v", cl.id, err)
			}
			return
		}
		switch {
		case errors.Is(err, badger.ErrConflict):
			r.probe("conflict")
			if pc.rec != nil {
				r.violate([]string{"C02", "C03"}, "conflict-after-ts", "c%d got ErrConflict but a commit ts %d was allocated", cl.id, pc.rec.Ts)
			}
			if w, ok := managedWitness(pc.conflictIdx); ok && w == "" {
				r.violate([]string{"C02"}, "spurious-conflict", "c%d (managed, readTs=%d, reads=%v) got ErrConflict but none of the %d earlier commits with ts > %d wrote a key it read", cl.id, ts.readTs, keysOf(ts.reads), pc.conflictIdx, ts.readTs)
			}
			if !r.c.Cfg.Managed && witnessBelow(pc.conflictBound) == "" {
				r.violate([]string{"C02"}, "spurious-conflict", "c%d (readTs=%d, reads=%v) got ErrConflict but no commit with ts in (%d,%d) wrote a key it read", cl.id, ts.readTs, keysOf(ts.reads), ts.readTs, pc.conflictBound)
			}
		case acked:
			if pc.rec == nil {
				r.violate([]string{"C03"}, "ack-without-ts", "c%d commit returned nil but no commit timestamp was allocated", cl.id)
				return
			}
			if d := diffWrites(pc.writes, pc.rec.Writes); d != "" {
				r.violate([]string{"C03", "C06"}, "commit-entries-differ", "c%d commit ts=%d: the entries handed to the write path differ from what the transaction set: %s", cl.id, pc.rec.Ts, d)
			}
			if w, ok := managedWitness(pc.rec.ID); ok && w != "" {
				r.probe("managed_conflict_checked")
				r.violate([]string{"C02"}, "missed-conflict", "c%d (managed, readTs=%d, commitTs=%d, reads=%v) committed although %s earlier and above its read timestamp (discardTs=%d)", cl.id, ts.readTs, pc.rec.Ts, keysOf(ts.reads), w, r.discardTs)
			} else if ok {
				r.probe("managed_conflict_checked")
			}
			if witness := witnessBelow(pc.rec.Ts); witness != "" {
				r.violate([]string{"C02"}, "missed-conflict", "c%d (readTs=%d, commitTs=%d, reads=%v) committed although %s after its read timestamp", cl.id, ts.readTs, pc.rec.Ts, keysOf(ts.reads), witness)
			}
			r.mu.Lock()
			pc.rec.Acked = true
			pc.rec.AckStep = r.e.Steps
			if pc.rec.Ts > r.maxAckedTs {
				r.maxAckedTs = pc.rec.Ts
			}
			_, stillInFlight := r.inFlight[pc.rec.Ts]
			r.mu.Unlock()
			_ = stillInFlight
		default:
			r.probe("commit_error")
			if !r.allowCommitError(err) {
				r.violate([]string{"C03", "C38"}, "commit-error", "c%d commit returned unexpected error %v", cl.id, err)
			}
		}
	}
	cl.cur = pc
	if op.K == "commitWith" {
		r.mu.Lock()
		cl.cbPending++
		r.mu.Unlock()
		cb := func(err error) {
			finish(err)
			r.mu.Lock()
			cl.cbPending--
			r.mu.Unlock()
		}
		if r.c.Cfg.Managed {
			cts := r.managedCommitTs(op.Ts)
			err := ts.txn.CommitAt(cts, cb)
			r.managedCommitDone(cts)
			if err != nil {
				cb(err)
			}
		} else {
			ts.txn.CommitWith(cb)
		}
		cl.cur = nil
		return
	}
	var err error
	if r.c.Cfg.Managed {
		cts := r.managedCommitTs(op.Ts)
		err = ts.txn.CommitAt(cts, nil)
		r.managedCommitDone(cts)
	} else {
		err = ts.txn.Commit()
	}
	cl.cur = nil
	finish(err)
}

// managedCommitTs makes a caller-chosen commit timestamp legal: above the
// current discard timestamp (the oracle asserts that) and not used before
// (two commits at one timestamp are outside C36's statement).
func (r *Run) managedCommitTs(want uint64) uint64 {
	r.mu.Lock()
	defer r.mu.Unlock()
	if want <= r.discardTs {
		want = r.discardTs + 1 + want%7
	}
	for r.usedTs[want] {
		want++
	}
	r.usedTs[want] = true
	// until the commit has passed the oracle, SetDiscardTs calls of other clients stay
	// below this timestamp (a commit at or below the discard timestamp is caller misuse
	// that the oracle answers with an assertion, i.e. a process abort)
	if r.pendingMts == nil {
		r.pendingMts = map[uint64]int{}
	}
	r.pendingMts[want]++
	return want
}

func (r *Run) managedCommitDone(ts uint64) {
	r.mu.Lock()
	if r.pendingMts[ts]--; r.pendingMts[ts] <= 0 {
		delete(r.pendingMts, ts)
	}
	r.mu.Unlock()
}

func diffWrites(want, got []WriteRec) string {
	idx := map[string]WriteRec{}
	for _, w := range got {
		idx[w.Key] = w
	}
	if len(idx) != len(want) {
		return fmt.Sprintf("%d keys set, %d entries committed", len(want), len(idx))
	}
	for _, w := range want {
		g, ok := idx[w.Key]
		if !ok || g.Del != w.Del || (!w.Del && (!bytes.Equal(g.Val, w.Val) || g.UM != w.UM || g.Exp != w.Exp || g.Disc != w.Disc)) {
			return fmt.Sprintf("key %q: set %s, committed %s", w.Key, descW(w), descW(g))
		}
	}
	return ""
}

func tsOf(pc *pendingCommit) interface{} {
	if pc.rec == nil {
		return "-"
	}
	return pc.rec.Ts
}

func keysOf(m map[string]bool) []string {
	out := make([]string, 0, len(m))
	for k := range m {
		out = append(out, fmt.Sprintf("%q", k))
	}
	sort.Strings(out)
	return out
}

func (r *Run) allowCommitError(err error) bool {
	// a commit rejected by the size limits is legal (C03: it leaves no trace,
	// which the model enforces through the commitFailed event)
	if errors.Is(err, badger.ErrBlockedWrites) {
		r.mu.Lock()
		n := len(r.drops)
		r.mu.Unlock()
		return n > 0 // writes are rejected while a drop has them blocked
	}
	return errors.Is(err, badger.ErrTxnTooBig)
}

// ---------- iterators ----------

type expItem struct {
	Key     string
	Ver     uint64
	Val     []byte
	UM      byte
	Exp     uint64
	Del     bool
	Disc    bool
	Pending bool
}

// expectedIter computes the item sequence the model predicts.
func (r *Run) expectedIter(ts *txnState, it *IterSpec, pending map[string]WriteRec, sinceTs uint64, seek []byte, rewind bool, tnow uint64) []expItem {
	r.mu.Lock()
	defer r.mu.Unlock()
	keyset := map[string]bool{}
	for k := range r.model.Keys {
		keyset[k] = true
	}
	for k := range pending {
		keyset[k] = true
	}
	keys := make([]string, 0, len(keyset))
	for k := range keyset {
		keys = append(keys, k)
	}
	sort.Strings(keys)
	if it.Rev {
		for i, j := 0, len(keys)-1; i < j; i, j = i+1, j-1 {
			keys[i], keys[j] = keys[j], keys[i]
		}
	}
	var prefix []byte
	allv := it.AllV
	exact := false
	if it.KeyIter >= 0 {
		prefix = r.key(it.KeyIter)
		allv = true
		exact = true
	} else if it.Prefix >= 0 {
		prefix = r.iterPrefix(it)
	}
	if rewind {
		seek = prefix
	}
	var out []expItem
	for _, k := range keys {
		if len(seek) > 0 {
			c := bytes.Compare([]byte(k), seek)
			if (!it.Rev && c < 0) || (it.Rev && c > 0) {
				continue
			}
		}
		// versions newest first
		var vs []expItem
		if w, ok := pending[k]; ok && ts.rw {
			vs = append(vs, expItem{Key: k, Ver: ts.readTs, Val: w.Val, UM: w.UM, Exp: w.Exp, Del: w.Del, Disc: w.Disc, Pending: true})
		}
		for _, v := range r.model.VersionsAtOrBelow(k, ts.readTs) {
			if len(vs) > 0 && vs[0].Pending && v.Ts == ts.readTs {
				continue
			}
			vs = append(vs, expItem{Key: k, Ver: v.Ts, Val: v.Val, UM: v.UM, Exp: v.Exp, Del: v.Del, Disc: v.Disc})
		}
		if sinceTs > 0 {
			tmp := vs[:0]
			for _, v := range vs {
				if v.Ver > sinceTs {
					tmp = append(tmp, v)
				}
			}
			vs = tmp
		}
		if len(vs) == 0 {
			continue
		}
		var emit []expItem
		if allv {
			emit = vs
			if it.Rev {
				emit = make([]expItem, len(vs))
				for i := range vs {
					emit[len(vs)-1-i] = vs[i]
				}
			}
		} else {
			if vs[0].Del || expired(vs[0].Exp, tnow) {
				continue
			}
			emit = vs[:1]
		}
		// validity: prefix boundary stops the iteration
		if exact {
			if k != string(prefix) {
				// first item that is not the key ends the iteration
				return out
			}
		} else if len(prefix) > 0 && !bytes.HasPrefix([]byte(k), prefix) {
			return out
		}
		out = append(out, emit...)
	}
	return out
}

func (r *Run) opIter(cl *clientState, idx int, op *Op) {
	ts := cl.slots[op.S]
	if ts == nil || op.It == nil {
		return
	}
	it := op.It
	opt := badger.DefaultIteratorOptions
	opt.Reverse = it.Rev
	opt.AllVersions = it.AllV
	opt.PrefetchValues = it.Prefetch
	opt.PrefetchSize = it.PSize
	var sinceTs uint64
	if it.Since > 0 {
		if ts.readTs > uint64(it.Since) {
			sinceTs = ts.readTs - uint64(it.Since)
		} else {
			sinceTs = 1
		}
		opt.SinceTs = sinceTs
	}
	// snapshot of pending writes at iterator creation
	pend := map[string]WriteRec{}
	for k, v := range ts.pending {
		pend[k] = v
	}
	var bi *badger.Iterator
	if it.KeyIter >= 0 {
		bi = ts.txn.NewKeyIterator(r.key(it.KeyIter), opt)
	} else {
		if it.Prefix >= 0 {
			opt.Prefix = r.iterPrefix(it)
		}
		bi = ts.txn.NewIterator(opt)
	}
	defer bi.Close()

	type phase struct {
		seek   []byte
		rewind bool
		max    int
	}
	var seek []byte
	if it.Seek >= 0 {
		seek = append([]byte{}, r.key(it.Seek)...)
		switch it.SeekSfx {
		case 1:
			seek = append(seek, 0)
		case 2:
			seek = append(seek, 0xff)
		}
	}
	phases := []phase{{seek: seek, rewind: it.Seek < 0, max: it.Max}}
	if it.Reseek >= 0 && it.Max > 0 {
		phases = append(phases, phase{seek: r.key(it.Reseek)})
	}
	for pi, ph := range phases {
		if ph.rewind {
			bi.Rewind()
		} else {
			bi.Seek(ph.seek)
			if ts.rw && len(ph.seek) > 0 {
				ts.reads[string(ph.seek)] = true
			}
		}
		tnow := now()
		want := r.expectedIter(ts, it, pend, sinceTs, ph.seek, ph.rewind, tnow)
		var got []expItem
		n := 0
		r.mu.Lock()
		hasDrops := len(r.drops) > 0
		r.mu.Unlock()
		if hasDrops {
			ph.max = 0 // dropped ranges are filtered out below: an early stop would cut at the wrong item
		}
		for ; bi.Valid(); bi.Next() {
			if ph.max > 0 && n >= ph.max {
				break
			}
			n++
			item := bi.Item()
			k := string(item.KeyCopy(nil))
			if ts.rw {
				ts.reads[k] = true
			}
			g := expItem{Key: k, Ver: item.Version(), UM: item.UserMeta(), Exp: item.ExpiresAt(), Disc: item.DiscardEarlierVersions()}
			g.Del = item.IsDeletedOrExpired() && !expired(item.ExpiresAt(), tnow)
			{
				o, err := readItem(item, 1+(idx+n)%2)
				if err != nil {
					r.violate([]string{"C05", "C06", "C01"}, "iter-value-error", "c%d iterator item %q@%d: reading value failed: %v", cl.id, k, g.Ver, err)
					return
				}
				g.Val = o.val
			}
			got = append(got, g)
		}
		if tEnd := now(); tEnd != tnow {
			// the simulated clock moved while the scan ran (the closer and clients park inside
			// it): an entry whose expiry lies in between was "live" for the expectation computed
			// at the start and "expired" for the items read later; such a scan is not judged
			crossed := false
			r.mu.Lock()
			for _, vs := range r.model.Keys {
				for i := range vs {
					if e := vs[i].Exp; e > tnow && e <= tEnd {
						crossed = true
					}
				}
			}
			r.mu.Unlock()
			if crossed {
				r.probe("iter_not_judged_expiry_crossed_during_scan")
				continue
			}
		}
		if len(r.drops) > 0 {
			// ranges touched by a DropPrefix/DropAll are checked by the drop op itself
			want = r.filterDropped(want)
			got = r.filterDropped(got)
		}
		relaxed := r.c.Cfg.NumCompactors > 0 && (it.AllV || it.KeyIter >= 0)
		if ph.max > 0 && len(want) > ph.max && !relaxed {
			want = want[:ph.max]
		}
		r.stats.Checks++
		r.logf("c%d iter s%d %+v phase%d -> %d items", cl.id, op.S, *it, pi, len(got))
		msg := ""
		if relaxed {
			msg = r.diffIterRetention(want, got, it.Rev, tnow, ph.max > 0 && len(got) >= ph.max)
		} else {
			msg = diffIter(want, got, ts.readTs)
		}
		if msg != "" {
			props := []string{"C05", "C01", "C12", "C15", "C29", "C33", "C37"}
			if len(pend) > 0 {
				props = append(props, "C04")
			}
			r.violate(props, "iterator-sequence", "c%d iterator %+v (readTs=%d since=%d seek=%q rewind=%v): %s\n want=%s\n got =%s", cl.id, *it, ts.readTs, sinceTs, ph.seek, ph.rewind, msg, fmtItems(want), fmtItems(got))
			return
		}
		if len(got) > 1 && r.c.Cfg.NumCompactors == 0 {
			r.stats.NonTrivial = true
		}
	}
}

func (r *Run) filterDropped(xs []expItem) []expItem {
	var out []expItem
	for _, x := range xs {
		if !r.dropTouches(x.Key) {
			out = append(out, x)
		}
	}
	return out
}

func diffIter(want, got []expItem, readTs uint64) string {
	if len(want) != len(got) {
		return fmt.Sprintf("length differs: want %d items, got %d", len(want), len(got))
	}
	for i := range want {
		w, g := want[i], got[i]
		if w.Key != g.Key {
			return fmt.Sprintf("item %d: want key %q got %q", i, w.Key, g.Key)
		}
		if w.Ver != g.Ver {
			return fmt.Sprintf("item %d key %q: want version %d got %d", i, w.Key, w.Ver, g.Ver)
		}
		if w.Del != g.Del {
			return fmt.Sprintf("item %d key %q@%d: want deleted=%v got %v", i, w.Key, w.Ver, w.Del, g.Del)
		}
		if !w.Del && !bytes.Equal(w.Val, g.Val) {
			return fmt.Sprintf("item %d key %q@%d: want value %s got %s", i, w.Key, w.Ver, short(w.Val), short(g.Val))
		}
		if !w.Del && (w.UM != g.UM || w.Exp != g.Exp || w.Disc != g.Disc) {
			return fmt.Sprintf("item %d key %q@%d: want um=%d exp=%d disc=%v got um=%d exp=%d disc=%v", i, w.Key, w.Ver, w.UM, w.Exp, w.Disc, g.UM, g.Exp, g.Disc)
		}
	}
	return ""
}

// diffIterRetention compares an AllVersions result with the model when
// compactions may have discarded versions: every returned item must be a
// written version in the right order (subsequence of want), and every version
// the retention rules promise (C13) must be present.
func (r *Run) diffIterRetention(want, got []expItem, rev bool, tnow uint64, truncated bool) string {
	r.mu.Lock()
	D := r.maxDiscardTs
	r.mu.Unlock()
	N := r.c.Cfg.NumVersionsToKeep
	// got must be a subsequence of want
	j := 0
	present := make([]bool, len(want))
	for _, g := range got {
		for j < len(want) && !(want[j].Key == g.Key && want[j].Ver == g.Ver) {
			j++
		}
		if j == len(want) {
			return fmt.Sprintf("item %q@%d is not a written version in iteration order (or appears twice)", g.Key, g.Ver)
		}
		w := want[j]
		// (the value of an entry whose expiry has passed is not owed: value-log GC
		// discards it and may delete its file while an all-versions scan still lists the entry)
		valueOwed := !w.Del && !expired(w.Exp, tnow)
		if w.Del != g.Del || (valueOwed && !bytes.Equal(w.Val, g.Val)) || (!w.Del && (w.UM != g.UM || w.Exp != g.Exp || w.Disc != g.Disc)) {
			return fmt.Sprintf("item %q@%d differs from what was written: want %v got %v", g.Key, g.Ver, w, g)
		}
		present[j] = true
		j++
	}
	limit := len(want)
	if truncated {
		// the caller stopped after Max items: nothing beyond the last one is owed
		limit = j
	}
	// must-keep set, per key, newest first
	byKey := map[string][]int{}
	var order []string
	for i, w := range want {
		if _, ok := byKey[w.Key]; !ok {
			order = append(order, w.Key)
		}
		byKey[w.Key] = append(byKey[w.Key], i)
	}
	for _, k := range order {
		idx := byKey[k]
		if rev { // want is oldest-first per key in reverse mode
			for a, b := 0, len(idx)-1; a < b; a, b = a+1, b-1 {
				idx[a], idx[b] = idx[b], idx[a]
			}
		}
		kept := 0
		stop := false
		for _, i := range idx {
			w := want[i]
			must := false
			switch {
			case w.Pending:
				must = true
			case w.Ver > D:
				must = true
			case stop:
			default:
				if w.Del || expired(w.Exp, tnow) {
					stop = true // the marker itself may or may not survive
				} else {
					must = true
					kept++
					if w.Disc || kept >= N {
						stop = true
					}
				}
			}
			if must && i < limit && !present[i] {
				return fmt.Sprintf("version %q@%d (discard watermark used so far <= %d, NumVersionsToKeep=%d) must be retained but is missing", w.Key, w.Ver, D, N)
			}
		}
	}
	return ""
}

func fmtItems(xs []expItem) string {
	var sb strings.Builder
	for _, x := range xs {
		if x.Del {
			fmt.Fprintf(&sb, "[%q@%d DEL] ", x.Key, x.Ver)
		} else {
			fmt.Fprintf(&sb, "[%q@%d %s] ", x.Key, x.Ver, short(x.Val))
		}
	}
	return sb.String()
}

// ---------- run orchestration ----------

// Outcome of one case.
type Outcome struct {
	Viol    *Violation
	Stats   RunStats
	Hist    []string
	Trace   []string
	Harness string // non-empty = harness trouble (exit 2 material)
}

var runSeq int

// TraceWanted: keep the (expensive) per-step schedule trace in runs that keep their history.
var TraceWanted bool

func shmDir() string {
	base := os.Getenv("VERIF_TMP")
	if base == "" {
		base = "/dev/shm"
	}
	return base
}

// Execute runs the case inside a fresh synctest bubble.
func Execute(t *testing.T, c *Case, prof *Profile, keepHist bool) (out Outcome) {
	return executeWith(t, c, prof, keepHist, nil, nil)
}

// executeWith runs the case; pre configures the Run before the bubble, post runs
// after the bubble (outside it) and may add to the verdict.
func executeWith(t *testing.T, c *Case, prof *Profile, keepHist bool, pre func(*Run), post func(*testing.T, *Run)) (out Outcome) {
	runSeq++
	dir, err := os.MkdirTemp(shmDir(), "vsim-")
	if err != nil {
		out.Harness = err.Error()
		return
	}
	defer os.RemoveAll(dir)
	r := &Run{c: c, prof: prof, dir: filepath.Join(dir, "d"), model: NewModel(), byGid: map[int64]*clientState{}, inFlight: map[uint64]bool{}, keepHist: keepHist, wms: map[string]*wmState{}, curRec: map[int64]*CommitRec{}, subByGid: map[int64]*extraState{}, seqSeen: map[string]map[uint64]string{}, usedTs: map[uint64]bool{}, gcMoved: map[string]map[uint64]bool{}, droppedMarkers: map[string][]uint64{}, compactKey: map[int64]*compactKeyState{}, subcompactD: map[int64]uint64{}, compactGone: map[string]map[uint64]bool{}}
	r.vdir = r.dir
	if c.Cfg.SeparateValueDir {
		r.vdir = filepath.Join(dir, "v")
	}
	r.stats.Probes = map[string]uint64{}
	r.stats.Known = map[string]uint64{}
	os.MkdirAll(r.dir, 0o755)
	os.MkdirAll(r.vdir, 0o755)
	if pre != nil {
		pre(r)
	}

	// real-time watchdog (outside the bubble)
	doneCh := make(chan struct{})
	go func() {
		select {
		case <-doneCh:
		case <-time.After(watchdogAfter()):
			fmt.Fprintf(os.Stderr, "WATCHDOG: run stuck for %v real time; case:\n%s\n", watchdogAfter(), c.JSON())
			dumpAllStacks()
			os.Exit(2)
		}
	}()
	defer close(doneCh)

	func() {
		defer func() {
			if p := recover(); p != nil {
				out.Harness = fmt.Sprintf("panic around bubble: %v", p)
			}
		}()
		synctest.Test(t, func(t *testing.T) {
			r.bubble()
		})
		Uninstall()
		if r.disk != nil {
			r.disk.Uninstall()
		}
		if post != nil {
			post(t, r)
		}
	}()
	Uninstall()
	out.Viol = r.viol
	out.Stats = r.stats
	out.Hist = r.hist
	if r.e != nil {
		out.Trace = r.e.TraceLog
	}
	if r.harness != "" && out.Harness == "" {
		out.Harness = r.harness
	}
	return
}

func (r *Run) bubble() {
	r.startTime = time.Now()
	e := NewEngine(r.c.Sched, r.c.Cfg.Groups)
	e.KeepTrace = r.keepHist && TraceWanted
	if v := os.Getenv("VERIF_DUMP_AT_STEP"); v != "" {
		fmt.Sscanf(v, "%d", &e.DumpAtStep)
	}
	r.e = e
	e.OnEvent = r.onEvent
	e.Install()
	r.heightRng = rand.New(rand.NewSource(int64(r.c.Cfg.SkipSeed)))
	vhook.SkipHeightFn = func() (int, bool) {
		// geometric with p=1/3 like the production code, from the case's own PRNG
		h := 1
		for h < 20 && r.heightRng.Intn(3) == 0 {
			h++
		}
		return h, true
	}
	vhook.NowFn = func() (time.Time, bool) { return time.Now(), true }
	vhook.EntryFn = r.onEntry
	if r.disk != nil {
		r.disk.Install()
		e.OnIO = func(gid int64, kind, path string, off, n int64) { r.disk.OnIO(kind, path, off, n) }
	}

	if err := r.open(); err != nil {
		r.harness = "open: " + err.Error()
		return
	}
	synctest.Wait() // everything Open started has settled before scheduling begins
	e.Activate()
	if r.c.Cfg.Prefill > 0 && !r.c.Cfg.Managed {
		// Phase 0: the pre-fill runs under the scheduler too (coarse points,
		// sequential policy, no decisions consumed) so that the state the
		// explored part starts from is itself deterministic.
		e.Sequential = true
		e.SetGroups([]string{"client", "compactor", "flusher", "subcompact", "builder"})
		pdone := false
		go func() {
			e.Register("prefill")
			e.Point("client.op")
			r.prefill()
			r.mu.Lock()
			pdone = true
			r.mu.Unlock()
		}()
		res := e.Run(func() bool {
			r.mu.Lock()
			defer r.mu.Unlock()
			return pdone
		}, 2000000)
		if res.Deadlock || res.StepBudget {
			r.harness = "prefill did not finish: " + res.Dump
			e.Stop()
			return
		}
		r.stats.Probes["prefill_steps"] = e.Steps
		if os.Getenv("VERIF_DEBUG_LAYOUT") != "" {
			for _, t := range r.db.Tables() {
				fmt.Fprintf(os.Stderr, "LAYOUT table %d L%d [%q .. %q] keys=%d\n", t.ID, t.Level, y.ParseKey(t.Left), y.ParseKey(t.Right), t.KeyCount)
			}
			fmt.Fprintf(os.Stderr, "LAYOUT cfg l0_tables=%d l0_stall=%d memtable=%d prefill=%d clustered=%v compactors=%d\n", r.c.Cfg.L0Tables, r.c.Cfg.L0Stall, r.c.Cfg.MemTableSize, r.c.Cfg.Prefill, r.c.Cfg.PrefillClustered, r.c.Cfg.NumCompactors)
		}
		if r.c.Cfg.PrefillAgeS > 0 {
			// let the pre-filled tables age (the L0->L0 picker ignores tables younger
			// than 10 s, the last-level rewrite those younger than an hour)
			e.sleep(time.Duration(r.c.Cfg.PrefillAgeS) * time.Second)
			synctest.Wait()
		}
		e.Sequential = false
		e.SetGroups(r.c.Cfg.Groups)
	}
	if r.disk != nil {
		r.disk.Capture = true
	}
	for i, ops := range r.c.Clients {
		cl := &clientState{id: i, ops: ops}
		r.cls = append(r.cls, cl)
	}
	for _, cl := range r.cls {
		cl := cl
		go r.clientLoop(cl)
	}
	done := func() bool {
		r.mu.Lock()
		defer r.mu.Unlock()
		for _, cl := range r.cls {
			if !cl.done || (cl.cbPending > 0 && !(r.prof != nil && r.prof.CloseInflight)) {
				return false
			}
		}
		return true
	}
	maxSteps := uint64(200000)
	if v := os.Getenv("VERIF_MAXSTEPS"); v != "" {
		fmt.Sscanf(v, "%d", &maxSteps)
	}
	res := e.Run(done, maxSteps)
	stuck := false
	if res.Deadlock {
		r.violate([]string{"C38"}, "deadlock", "no goroutine can make progress and 90 simulated seconds changed nothing; parked: %s", res.Dump)
		stuck = true
	} else if res.StepBudget {
		r.violate([]string{"C38"}, "step-budget", "run did not finish within the step budget; parked: %s", res.Dump)
		stuck = true
	}
	// Phase 2, still under the scheduler: final checks and Close run in a
	// "closer" client, so that Close's own flushes and file operations are
	// scheduled steps (and crash points) like everything else.
	closed := false
	var closeErr error
	closer := func() {
		e.Register("closer")
		e.Point("client.op")
		if r.extra != nil && r.viol == nil {
			r.extra(r)
		}
		if r.viol == nil {
			r.finalChecks()
		}
		if dk := os.Getenv("VERIF_DEBUG_KEY"); dk != "" && r.db != nil {
			txn := r.db.NewTransaction(false)
			o := badger.DefaultIteratorOptions
			o.AllVersions = true
			it := txn.NewKeyIterator([]byte(dk), o)
			for it.Rewind(); it.Valid(); it.Next() {
				v, _ := it.Item().ValueCopy(nil)
				fmt.Fprintf(os.Stderr, "DEBUGKEY %q@%d deleted=%v val=%s\n", dk, it.Item().Version(), it.Item().IsDeletedOrExpired(), short(v))
			}
			it.Close()
			txn.Discard()
			for _, t := range r.db.Tables() {
				fmt.Fprintf(os.Stderr, "DEBUGKEY table %d L%d [%q@%d .. %q@%d] keys=%d\n", t.ID, t.Level, y.ParseKey(t.Left), y.ParseTs(t.Left), y.ParseKey(t.Right), y.ParseTs(t.Right), t.KeyCount)
			}
		}
		e.Point("client.op")
		r.setPhase("close")
		closeErr = r.db.Close()
		r.setPhase("")
		// every CommitWith callback is guaranteed to run, also when Close overtook it
		for i := 0; i < 5000; i++ {
			e.Point("client.poll") // park first: goroutines ended by Close wake without the scheduler
			pending := 0
			r.mu.Lock()
			for _, cl := range r.cls {
				pending += cl.cbPending
			}
			r.mu.Unlock()
			if pending == 0 {
				break
			}
			if i == 4999 {
				r.violate([]string{"C38", "C03"}, "callback-never-ran", "%d CommitWith/Subscribe callbacks had not run 5000 scheduling steps after Close returned", pending)
			}
		}
		r.mu.Lock()
		closed = true
		r.mu.Unlock()
	}
	if !stuck {
		go closer()
		res = e.Run(func() bool {
			r.mu.Lock()
			defer r.mu.Unlock()
			return closed
		}, 400000)
		if res.Deadlock {
			r.violate([]string{"C38"}, "close-deadlock", "Close cannot make progress; parked: %s", res.Dump)
			stuck = true
		} else if res.StepBudget {
			r.violate([]string{"C38"}, "close-step-budget", "Close did not finish within the step budget; parked: %s", res.Dump)
			stuck = true
		}
	}
	if r.disk != nil {
		r.disk.Capture = false
	}
	e.Stop()
	r.stats.Steps = e.Steps
	r.stats.Decisions = e.Decisions
	r.stats.Switches = e.Switches
	r.stats.Digest = e.TraceDigest()
	for k, v := range e.SiteHits {
		if strings.HasPrefix(k, "choose:") {
			r.stats.Probes[k] = v
		} else {
			// how often each schedule point was a scheduling step (reach)
			site := k
			if i := strings.IndexByte(site, ':'); i >= 0 {
				site = site[:i]
			}
			r.stats.Probes["site:"+site] += v
		}
	}
	if stuck {
		// best effort tear-down with everything running freely
		if r.disk != nil {
			r.disk.Every = 0
		}
		synctest.Wait()
		cerr := make(chan error, 1)
		go func() { cerr <- r.db.Close() }()
		select {
		case <-cerr:
		case <-time.After(10 * time.Minute): // simulated time
		}
	} else if closeErr != nil && r.viol == nil {
		r.harness = "close: " + closeErr.Error()
	}
	r.stats.SimTime = time.Since(r.startTime)
	if os.Getenv("VERIF_DEBUG_LEAK") != "" {
		synctest.Wait()
		dumpAllStacks()
	}
}

// prefill writes filler versions of one key through normal transactions (and
// through the model) before scheduling starts, so that the active memtable is
// close to full and rotations/flushes happen inside the scheduled part.
func (r *Run) prefill() {
	cfg := &r.c.Cfg
	target := cfg.MemTableSize * int64(cfg.Prefill) / 100
	maxBatch := cfg.MemTableSize * 15 / 100
	vsz := int(maxBatch / 3)
	if int64(vsz) >= cfg.ValueThreshold {
		vsz = int(cfg.ValueThreshold) - 1
	}
	if cfg.PrefillVlog {
		vsz = int(cfg.ValueThreshold) + 24 // values go to the value log
	}
	if vsz > 1000 {
		vsz = 1000
	}
	if vsz < 0 {
		vsz = 0
	}
	cl := &clientState{id: 99}
	r.mu.Lock()
	r.byGid[goid()] = cl
	r.mu.Unlock()
	fillKeys := [][]byte{[]byte("~fill")}
	if cfg.PrefillAllKeys {
		for i := range r.c.Keys {
			fillKeys = append(fillKeys, r.key(i))
		}
	}
	// "clustered" pre-fill: the keys are written in segments that each touch only a
	// contiguous sub-range of the sorted alphabet, so that memtables / L0 tables
	// get narrow, partly disjoint key ranges instead of all spanning everything
	sorted := append([][]byte{}, fillKeys...)
	sort.Slice(sorted, func(i, j int) bool { return bytes.Compare(sorted[i], sorted[j]) < 0 })
	prng := rand.New(rand.NewSource(int64(cfg.SkipSeed) + 7))
	segLeft := 0
	var seg [][]byte
	var written int64
	// Half of the clustered pre-fills start with two single-key stretches, each long
	// enough to fill a memtable: the two oldest L0 tables are then narrow and disjoint,
	// so an L0->Lbase compaction takes only the first and leaves the rest of L0 idle
	// (what the L0->L0 picker and non-prefix pick orders need).
	narrowHead := 0
	if cfg.PrefillClustered && prng.Intn(2) == 0 && len(sorted) >= 2 {
		narrowHead = 2
	}
	perTable := int(cfg.MemTableSize/int64(vsz+48)) + 2
	for i := 0; written < target && i < 3000; i++ {
		key := fillKeys[i%len(fillKeys)]
		if cfg.PrefillSkew && !cfg.PrefillClustered {
			// a third of the keys gets most of the versions, the others one or two
			hot := len(fillKeys)/3 + 1
			if prng.Intn(10) < 8 {
				key = fillKeys[prng.Intn(hot)]
			} else {
				key = fillKeys[prng.Intn(len(fillKeys))]
			}
		}
		if cfg.PrefillClustered {
			if segLeft == 0 && narrowHead > 0 {
				lo := prng.Intn(len(sorted))
				if narrowHead == 1 && bytes.Equal(sorted[lo], seg[0]) {
					lo = (lo + 1) % len(sorted)
				}
				seg = sorted[lo : lo+1]
				segLeft = perTable
				narrowHead--
			}
			if segLeft == 0 {
				lo := prng.Intn(len(sorted))
				hi := lo + 1 + prng.Intn(3)
				if hi > len(sorted) {
					hi = len(sorted)
				}
				seg = sorted[lo:hi]
				segLeft = 3 + prng.Intn(25)
			}
			segLeft--
			key = seg[prng.Intn(len(seg))]
		}
		txn := r.db.NewTransaction(true)
		w := WriteRec{Key: string(key), Val: MakeValue(99, i, 0, vsz)}
		var err error
		if cfg.PrefillAllKeys && i%7 == 6 {
			w = WriteRec{Key: string(key), Del: true}
			err = txn.Delete(key)
		} else if cfg.PrefillTTL > 0 && i%3 == 1 {
			// expiring pre-fill: these entries are old enough to be moved by GC or
			// compacted before the simulated clock crosses their expiry
			w.Exp = uint64(time.Now().Add(time.Duration(cfg.PrefillTTL) * time.Second).Unix())
			err = txn.SetEntry(badger.NewEntry(key, w.Val).WithTTL(time.Duration(cfg.PrefillTTL) * time.Second))
		} else {
			err = txn.Set(key, w.Val)
		}
		if errors.Is(err, badger.ErrTxnTooBig) {
			txn.Discard() // e.g. a 300-byte key with a 2 KiB memtable
			written += 8
			continue
		}
		if err != nil {
			txn.Discard()
			r.harness = "prefill set: " + err.Error()
			return
		}
		pc := &pendingCommit{opIdx: i, readTs: txn.ReadTs(), writes: []WriteRec{w}}
		cl.cur = pc
		err = txn.Commit()
		cl.cur = nil
		if err != nil || pc.rec == nil {
			r.harness = fmt.Sprintf("prefill commit: %v", err)
			return
		}
		pc.rec.Acked = true
		if pc.rec.Ts > r.maxAckedTs {
			r.maxAckedTs = pc.rec.Ts
		}
		written += int64(len(key)+8+vsz+12) + 30
	}
	r.mu.Lock()
	delete(r.byGid, goid())
	r.mu.Unlock()
}

// finalChecks runs after all clients finished: a fresh read-only transaction
// must see the model's final state.
func (r *Run) finalChecks() {
	if r.c.Cfg.Managed {
		r.finalChecksManaged()
		return
	}
	txn := r.db.NewTransaction(false)
	defer txn.Discard()
	ts := &txnState{txn: txn, readTs: txn.ReadTs(), pending: map[string]WriteRec{}, reads: map[string]bool{}}
	cl := &clientState{id: -1}
	r.mu.Lock()
	mx := r.model.MaxTs()
	r.mu.Unlock()
	if ts.readTs < mx {
		r.violate([]string{"C03", "C34"}, "final-readts", "final transaction got readTs=%d below the newest commit ts=%d", ts.readTs, mx)
		return
	}
	cl.slots[0] = ts
	for i := range r.c.Keys {
		r.opGet(cl, 0, &Op{K: "get", Key: i})
		if r.viol != nil {
			return
		}
	}
	if r.prof != nil && r.prof.NoIter {
		return // merge write-backs reuse the version of a merge entry: whole-DB dumps are not comparable
	}
	r.opIter(cl, 0, &Op{K: "iter", It: &IterSpec{Prefix: -1, Seek: -1, KeyIter: -1, Reseek: -1, AllV: true}})
	if r.viol != nil {
		return
	}
	r.opIter(cl, 1, &Op{K: "iter", It: &IterSpec{Prefix: -1, Seek: -1, KeyIter: -1, Reseek: -1, Rev: true, Prefetch: true, PSize: 2}})
}
