package sim

import (
	"os"
	"pgregory.net/rapid"
)

// keyPool: keys chosen to collide and nest (prefixes of each other, 0x00/0xff
// bytes, long keys, keys next to the reserved "!badger!" prefix).
var keyPool = [][]byte{
	[]byte("a"), []byte("a\x00"), []byte("a\xff"), []byte("ab"), []byte("abc"),
	[]byte("b"), []byte("b\x00\x00"), []byte("\x00"), []byte("\xff"), []byte("\xff\xff"),
	[]byte("k1"), []byte("k2"), []byte("k3"), []byte("k4"), []byte("k5"), []byte("k6"),
	[]byte("!badger"), []byte("!badges!x"), []byte("!"), []byte("ab\x00c"),
	longKey('z', 200), longKey('a', 300),
}

func longKey(c byte, n int) []byte {
	b := make([]byte, n)
	for i := range b {
		b[i] = c
	}
	return b
}

// Profile tunes the generator for one scenario family / property.
type Profile struct {
	Name       string
	MinClients int
	MaxClients int
	MaxOps     int // per client
	MaxKeys    int
	// op weights
	WGet, WSet, WDel, WIter, WCommitWith, WDiscard, WLongTxn int
	WUpdate, WView                                           int // one-shot closures
	TTL                                                      bool
	Meta                                                     bool
	Discard                                                  bool // WithDiscard entries
	BigValues                                                bool // values across the threshold
	Groups                                                   [][]string
	MaxDec                                                   int
	ConflictHeavy                                            bool
	Compress                                                 bool
	Encrypt                                                  bool
	Vlog                                                     bool
	SmallMem                                                 bool // memtables small enough to rotate within a run
	Compaction                                               bool // compaction workers are part of the scenario
	Clock                                                    bool // clock jumps are part of the schedule
	WBatch, WSub, WSeq, WMerge                               int  // weights of the extra op kinds
	Managed                                                  bool // managed mode: caller-chosen timestamps
	TsNarrow                                                 bool // managed mode: read/commit/discard timestamps from 1..12 so that they collide and touch
	WDiscardTs, WMBatch                                      int
	InMemory                                                 bool
	CloseInflight                                            bool // Close starts while CommitWith callbacks are still pending
	WFlatten                                                 int
	WStream, WBackup                                         int  // only the first client issues these
	NoHold                                                   bool // no items/iterators held across other ops (drops are documented as unsafe against concurrent reads)
	WGC, WDrop                                               int
	NoIter                                                   bool
}

func (p *Profile) extra2Pct() int {
	if p.WDrop > 0 {
		return 6 // drops are heavy and block writes: a few per run
	}
	return 20
}

func genConfig(t *rapid.T, p *Profile) Config {
	var c Config
	if p.SmallMem {
		c.MemTableSize = int64(rapid.SampledFrom([]int{2 << 10, 3 << 10, 4 << 10, 4 << 10, 8 << 10, 16 << 10, 64 << 10}).Draw(t, "memtable"))
	} else {
		c.MemTableSize = int64(rapid.SampledFrom([]int{32 << 10, 64 << 10, 1 << 20}).Draw(t, "memtable"))
	}
	c.NumMemtables = rapid.IntRange(1, 4).Draw(t, "num_memtables")
	maxBatch := c.MemTableSize * 15 / 100
	if p.Vlog {
		c.ValueThreshold = int64(rapid.SampledFrom([]int{16, 32, 64, 100, 1 << 10}).Draw(t, "value_threshold"))
		if rapid.IntRange(0, 3).Draw(t, "vlog_pct_on") == 0 {
			c.VLogPercentile = rapid.SampledFrom([]float64{0.5, 0.9, 0.99}).Draw(t, "vlog_percentile")
		}
	} else {
		c.ValueThreshold = int64(rapid.SampledFrom([]int{32, 1 << 10, 1 << 20}).Draw(t, "value_threshold"))
	}
	if c.ValueThreshold > maxBatch {
		c.ValueThreshold = maxBatch
	}
	c.ValueLogMaxEntries = uint32(rapid.SampledFrom([]int{5, 10, 50, 1000}).Draw(t, "vlog_max_entries"))
	c.NumVersionsToKeep = rapid.SampledFrom([]int{1, 1, 2, 3, 1 << 30}).Draw(t, "versions_to_keep")
	c.DetectConflicts = rapid.IntRange(0, 4).Draw(t, "detect_conflicts") != 0
	c.SyncWrites = rapid.IntRange(0, 3).Draw(t, "sync_writes") == 0
	if p.Compress {
		c.Compression = rapid.IntRange(0, 2).Draw(t, "compression")
	}
	if p.Encrypt {
		c.EncKeyLen = rapid.SampledFrom([]int{0, 0, 16, 24, 32}).Draw(t, "enc_key_len")
	}
	c.BlockCache = rapid.Bool().Draw(t, "block_cache") || c.Compression != 0 || c.EncKeyLen != 0
	c.IndexCache = rapid.Bool().Draw(t, "index_cache")
	c.BlockSize = rapid.SampledFrom([]int{128, 512, 4096}).Draw(t, "block_size")
	c.Bloom = rapid.SampledFrom([]float64{0, 0.01, 0.5}).Draw(t, "bloom")
	c.BaseTableSize = int64(rapid.SampledFrom([]int{1 << 10, 4 << 10, 64 << 10, 2 << 20}).Draw(t, "base_table_size"))
	c.BaseLevelSize = int64(rapid.SampledFrom([]int{2 << 10, 16 << 10, 1 << 20, 10 << 20}).Draw(t, "base_level_size"))
	c.LevelMult = rapid.SampledFrom([]int{2, 3, 10}).Draw(t, "level_mult")
	c.TableMult = rapid.SampledFrom([]int{1, 2}).Draw(t, "table_mult")
	c.MaxLevels = rapid.IntRange(3, 7).Draw(t, "max_levels")
	c.L0Tables = rapid.IntRange(1, 5).Draw(t, "l0_tables")
	c.L0Stall = c.L0Tables + rapid.IntRange(1, 10).Draw(t, "l0_stall_extra")
	if !p.Compaction {
		// nobody compacts in this family: an L0 stall would never end
		c.L0Stall = 100000
	} else {
		c.NumCompactors = rapid.IntRange(2, 4).Draw(t, "num_compactors")
		c.L0Tables = rapid.IntRange(1, 4).Draw(t, "l0_tables_k")
		c.L0Stall = c.L0Tables + rapid.IntRange(1, 4).Draw(t, "l0_stall_k")
		if rapid.IntRange(0, 2).Draw(t, "l0_wide") == 0 {
			// a wide L0: many tables accumulate before L0 is compacted, so that worker 0
			// finds >=4 idle tables while another worker moves the oldest ones down
			// (the L0->L0 compaction) and the base level receives several tables at once
			c.L0Tables = rapid.IntRange(4, 8).Draw(t, "l0_tables_wide")
			c.L0Stall = c.L0Tables + rapid.IntRange(2, 6).Draw(t, "l0_stall_wide")
		}
		c.MemTableSize = int64(rapid.SampledFrom([]int{2 << 10, 3 << 10, 4 << 10, 8 << 10}).Draw(t, "memtable_k"))
		if c.ValueThreshold > c.MemTableSize*15/100 {
			c.ValueThreshold = c.MemTableSize * 15 / 100
		}
		c.BaseTableSize = int64(rapid.SampledFrom([]int{512, 1 << 10, 2 << 10, 4 << 10}).Draw(t, "base_table_size_k"))
		c.BaseLevelSize = int64(rapid.SampledFrom([]int{1 << 10, 4 << 10, 16 << 10, 1 << 20}).Draw(t, "base_level_size_k"))
		c.LevelMult = rapid.SampledFrom([]int{2, 3, 10}).Draw(t, "level_mult_k")
		c.LmaxCompaction = rapid.Bool().Draw(t, "lmax_compaction")
		c.CompactL0OnClose = rapid.Bool().Draw(t, "compact_l0_on_close")
	}
	c.VerifyValueChecksum = rapid.Bool().Draw(t, "verify_value_checksum")
	c.ChecksumMode = rapid.IntRange(0, 3).Draw(t, "checksum_mode")
	if len(p.Groups) > 0 {
		c.Groups = p.Groups[rapid.IntRange(0, len(p.Groups)-1).Draw(t, "groups")]
	}
	c.SkipSeed = rapid.Uint64Range(1, 1<<20).Draw(t, "skip_seed")
	if p.SmallMem {
		c.Prefill = rapid.SampledFrom([]int{0, 0, 50, 80, 95, 99, 150}).Draw(t, "prefill")
	}
	if p.Compaction {
		c.Prefill = rapid.SampledFrom([]int{100, 250, 400, 700, 1200}).Draw(t, "prefill_k")
		c.PrefillAllKeys = true
		c.PrefillClustered = rapid.IntRange(0, 2).Draw(t, "prefill_clustered") > 0
		c.PrefillAgeS = rapid.SampledFrom([]int{0, 11, 11, 4000}).Draw(t, "prefill_age")
		c.PrefillSkew = rapid.Bool().Draw(t, "prefill_skew")
	}
	return c
}

func genKeys(t *rapid.T, max int) []HexBytes {
	if max < 2 {
		max = 2
	}
	n := rapid.IntRange(2, max).Draw(t, "nkeys")
	perm := rapid.Permutation(intsUpTo(len(keyPool))).Draw(t, "keyperm")
	out := make([]HexBytes, 0, n)
	for i := 0; i < n && i < len(perm); i++ {
		out = append(out, HexBytes(keyPool[perm[i]]))
	}
	return out
}

func intsUpTo(n int) []int {
	a := make([]int, n)
	for i := range a {
		a[i] = i
	}
	return a
}

func genSched(t *rapid.T, maxDec int) Sched {
	var s Sched
	mode := rapid.IntRange(0, 3).Draw(t, "sched_mode")
	switch mode {
	case 0: // explicit prefix only, then sequential
		s.Dec = rapid.SliceOfN(rapid.Uint16Range(0, 7), 0, maxDec).Draw(t, "dec")
	case 1: // PRNG tail only
		s.TailSeed = rapid.Uint64Range(1, 1<<32).Draw(t, "tail_seed")
		s.Preempt = rapid.SampledFrom([]int{2, 10, 30, 60, 100}).Draw(t, "preempt")
	default:
		s.Dec = rapid.SliceOfN(rapid.Uint16Range(0, 7), 0, maxDec/2).Draw(t, "dec")
		s.TailSeed = rapid.Uint64Range(1, 1<<32).Draw(t, "tail_seed")
		s.Preempt = rapid.SampledFrom([]int{2, 10, 30, 60, 100}).Draw(t, "preempt")
	}
	// how many steps a runnable watermark goroutine may be passed over (lagging
	// DoneUntil values are what conflict-log cleanup and discard decisions see)
	s.WmLeash = rapid.SampledFrom([]int{0, 0, 12, 30}).Draw(t, "wm_leash")
	s.LockYield = rapid.SampledFrom([]int{0, 0, 10, 40}).Draw(t, "lock_yield")
	return s
}

func genIter(t *rapid.T, p *Profile, nkeys int, inTxnRW bool) *IterSpec {
	it := &IterSpec{Prefix: -1, Seek: -1, KeyIter: -1, Reseek: -1}
	it.Rev = rapid.IntRange(0, 2).Draw(t, "it_rev") == 0
	kind := rapid.IntRange(0, 9).Draw(t, "it_kind")
	switch {
	case kind <= 1:
		it.Prefix = rapid.IntRange(0, nkeys-1).Draw(t, "it_prefix")
		it.PrefixLen = rapid.SampledFrom([]int{0, 0, 1, 2}).Draw(t, "it_prefix_len") // short prefixes span several keys (and tables)
		// seek inside the prefix: either rewind or the prefix key itself with a suffix
		if rapid.Bool().Draw(t, "it_seek_in_prefix") {
			it.Seek = it.Prefix
			it.SeekSfx = rapid.IntRange(0, 2).Draw(t, "it_seek_sfx")
		}
	case kind == 2:
		it.KeyIter = rapid.IntRange(0, nkeys-1).Draw(t, "it_keyiter")
	default:
		if rapid.Bool().Draw(t, "it_seek") {
			it.Seek = rapid.IntRange(0, nkeys-1).Draw(t, "it_seek_key")
			it.SeekSfx = rapid.IntRange(0, 2).Draw(t, "it_seek_sfx")
		}
	}
	if it.KeyIter < 0 {
		it.AllV = rapid.IntRange(0, 3).Draw(t, "it_allv") == 0
	}
	if rapid.IntRange(0, 4).Draw(t, "it_since_on") == 0 || (it.Prefix >= 0 && rapid.Bool().Draw(t, "it_since_with_prefix")) {
		// (SinceTs together with a Prefix takes its own path through the table picker)
		it.Since = rapid.SampledFrom([]int{1, 2, 3, 5, 20, 60, 150, 400}).Draw(t, "it_since")
	}
	it.Prefetch = rapid.Bool().Draw(t, "it_prefetch")
	it.PSize = rapid.SampledFrom([]int{0, 1, 2, 3, 100}).Draw(t, "it_psize")
	it.Max = rapid.SampledFrom([]int{0, 0, 0, 1, 2, 3}).Draw(t, "it_max")
	it.Vals = rapid.IntRange(0, 2).Draw(t, "it_vals")
	if it.Max > 0 && it.KeyIter < 0 && it.Prefix < 0 && rapid.Bool().Draw(t, "it_reseek_on") {
		it.Reseek = rapid.IntRange(0, nkeys-1).Draw(t, "it_reseek")
	}
	return it
}

func genValSize(t *rapid.T, p *Profile, cfg *Config) int {
	if p.BigValues {
		th := int(cfg.ValueThreshold)
		if th > 2048 {
			th = 64
		}
		return rapid.SampledFrom([]int{0, 1, 12, th - 1, th, th + 1, 2 * th, 3*th + 7, 120, 200, 200}).Draw(t, "valsz")
	}
	return rapid.SampledFrom([]int{0, 1, 12, 40, 100}).Draw(t, "valsz")
}

// genClient generates one client's script as a small state machine over two
// transaction slots.
func genClient(t *rapid.T, p *Profile, cfg *Config, nkeys, maxOps int) []Op {
	return genClientN(t, p, cfg, nkeys, maxOps, 1)
}

func genClientN(t *rapid.T, p *Profile, cfg *Config, nkeys, maxOps, clientIdx int) []Op {
	n := rapid.SampledFrom([]int{2, maxOps / 4, maxOps / 2, maxOps, maxOps}).Draw(t, "nops")
	if n < 1 {
		n = 1
	}
	var ops []Op
	slots := [2]int{} // 0 none, 1 ro, 2 rw
	writes := [2]int{}
	maxWrites := int(cfg.MemTableSize*15/100/100) - 2 // keep well under maxBatchCount
	if maxWrites > 6 {
		maxWrites = 6
	}
	if maxWrites < 1 {
		maxWrites = 1
	}
	for len(ops) < n {
		s := 0
		if p.WLongTxn > 0 && rapid.IntRange(0, 9).Draw(t, "slot") < p.WLongTxn {
			s = 1
		}
		if slots[s] == 0 {
			rw := rapid.IntRange(0, 3).Draw(t, "rw") != 0
			bop := Op{K: "begin", S: s, RW: rw}
			if p.Managed {
				if p.TsNarrow {
					bop.Ts = uint64(rapid.IntRange(1, 10).Draw(t, "read_ts_n"))
				} else {
					bop.Ts = uint64(rapid.IntRange(1, 95).Draw(t, "read_ts"))
				}
			}
			ops = append(ops, bop)
			if rw {
				slots[s] = 2
			} else {
				slots[s] = 1
			}
			writes[s] = 0
			continue
		}
		type choice struct {
			w int
			k string
		}
		if tot := p.WDiscardTs + p.WMBatch + p.WGC + p.WDrop + p.WFlatten; tot > 0 && rapid.IntRange(0, 99).Draw(t, "extra2") < p.extra2Pct() {
			x := rapid.IntRange(0, tot-1).Draw(t, "extra2_kind")
			switch {
			case x >= p.WDiscardTs+p.WMBatch+p.WGC+p.WDrop:
				ops = append(ops, Op{K: "flatten", N: rapid.IntRange(1, 3).Draw(t, "flatten_workers")})
			case x < p.WDiscardTs:
				if p.TsNarrow {
					ops = append(ops, Op{K: "discard_ts", Ts: uint64(rapid.IntRange(1, 10).Draw(t, "discard_ts_n"))})
				} else {
					// up to the middle of the commit-timestamp range: tombstones and old
					// versions fall below the discard timestamp and compaction may drop them
					ops = append(ops, Op{K: "discard_ts", Ts: uint64(rapid.IntRange(1, 70).Draw(t, "discard_ts"))})
				}
			case x < p.WDiscardTs+p.WMBatch:
				nb := rapid.IntRange(1, 8).Draw(t, "mbatch_n")
				var sub []Op
				for i := 0; i < nb; i++ {
					so := Op{K: "set", Key: rapid.IntRange(0, nkeys-1).Draw(t, "mbkey"), Sz: genValSize(t, p, cfg), Ts: uint64(rapid.IntRange(31, 90).Draw(t, "mbver"))}
					if rapid.IntRange(0, 4).Draw(t, "mbdel") == 0 {
						so.K = "del"
					}
					sub = append(sub, so)
				}
				ops = append(ops, Op{K: "mbatch", Sub: sub, N: rapid.IntRange(0, 1).Draw(t, "mbatch_kind"), Ts: uint64(rapid.IntRange(31, 90).Draw(t, "mbatch_ts"))})
			case x < p.WDiscardTs+p.WMBatch+p.WGC:
				ops = append(ops, Op{K: "gc", F: rapid.SampledFrom([]float64{0.01, 0.1, 0.5, 0.9}).Draw(t, "gc_ratio")})
			default:
				if rapid.IntRange(0, 3).Draw(t, "drop_all") == 0 {
					ops = append(ops, Op{K: "drop_all"})
				} else {
					np := rapid.IntRange(1, 2).Draw(t, "drop_np")
					var sub []Op
					for i := 0; i < np; i++ {
						sub = append(sub, Op{Key: rapid.IntRange(0, nkeys-1).Draw(t, "drop_key"), N: rapid.IntRange(0, 2).Draw(t, "drop_len")})
					}
					ops = append(ops, Op{K: "drop_prefix", Sub: sub})
				}
			}
			continue
		}
		// extra op kinds do not need a transaction slot
		if tot := p.WBatch + p.WSub + p.WSeq + p.WMerge; tot > 0 && rapid.IntRange(0, 99).Draw(t, "extra") < 35 {
			x := rapid.IntRange(0, tot-1).Draw(t, "extra_kind")
			switch {
			case x < p.WBatch:
				nb := rapid.IntRange(1, 12).Draw(t, "batch_n")
				var sub []Op
				for i := 0; i < nb; i++ {
					so := Op{K: "set", Key: rapid.IntRange(0, nkeys-1).Draw(t, "bkey"), Sz: genValSize(t, p, cfg)}
					if rapid.IntRange(0, 4).Draw(t, "bdel") == 0 {
						so.K = "del"
					}
					if p.Meta {
						so.UM = byte(rapid.IntRange(0, 255).Draw(t, "bum"))
					}
					sub = append(sub, so)
				}
				ops = append(ops, Op{K: "batch", Sub: sub})
			case x < p.WBatch+p.WSub:
				if rapid.IntRange(0, 2).Draw(t, "sub_kind") > 0 {
					np := rapid.IntRange(1, 2).Draw(t, "npat")
					var sub []Op
					for i := 0; i < np; i++ {
						sub = append(sub, Op{Key: rapid.IntRange(0, nkeys-1).Draw(t, "pkey"), N: rapid.IntRange(0, 2).Draw(t, "plen"), S: rapid.IntRange(0, 3).Draw(t, "pignore")})
					}
					ops = append(ops, Op{K: "subscribe", Sub: sub})
				} else {
					ops = append(ops, Op{K: "unsubscribe"})
				}
			case x < p.WBatch+p.WSub+p.WSeq:
				sl := rapid.IntRange(0, 1).Draw(t, "seq_slot")
				switch rapid.IntRange(0, 5).Draw(t, "seq_op") {
				case 0:
					ops = append(ops, Op{K: "seq_get", S: sl, Key: rapid.IntRange(0, 1).Draw(t, "seq_key"), N: rapid.IntRange(1, 4).Draw(t, "seq_bw")})
				case 1:
					ops = append(ops, Op{K: "seq_release", S: sl})
				default:
					ops = append(ops, Op{K: "seq_next", S: sl})
				}
			default:
				sl := rapid.IntRange(0, 1).Draw(t, "merge_slot")
				switch rapid.IntRange(0, 7).Draw(t, "merge_op") {
				case 0:
					ops = append(ops, Op{K: "merge_start", S: sl, Key: rapid.IntRange(0, 1).Draw(t, "merge_key"), N: rapid.SampledFrom([]int{10, 50, 1000}).Draw(t, "merge_dur")})
				case 1:
					ops = append(ops, Op{K: "merge_stop", S: sl})
				case 2, 3:
					ops = append(ops, Op{K: "merge_get", S: sl})
				default:
					ops = append(ops, Op{K: "merge_add", S: sl, Sz: rapid.SampledFrom([]int{0, 12, 40}).Draw(t, "merge_sz")})
				}
			}
			continue
		}
		if clientIdx == 0 && p.WStream+p.WBackup > 0 && rapid.IntRange(0, 99).Draw(t, "streamish") < 25 {
			if rapid.IntRange(0, p.WStream+p.WBackup-1).Draw(t, "sb") < p.WStream {
				ops = append(ops, Op{K: "stream", N: rapid.IntRange(1, 4).Draw(t, "numgo"), Key: rapid.IntRange(0, nkeys-1).Draw(t, "skey"), S: rapid.IntRange(0, 2).Draw(t, "smode")})
			} else {
				ops = append(ops, Op{K: "backup"})
			}
			continue
		}
		cs := []choice{{p.WGet, "get"}, {p.WIter, "iter"}}
		if p.WGC > 0 && !p.NoHold {
			cs = append(cs, choice{3, "get_hold"}, choice{2, "iter_hold"}, choice{4, "read_held"})
		}
		if slots[s] == 2 {
			if writes[s] < maxWrites {
				cs = append(cs, choice{p.WSet, "set"}, choice{p.WDel, "del"})
			}
			cs = append(cs, choice{3 + writes[s], "commit"}, choice{p.WCommitWith, "commitWith"})
		}
		cs = append(cs, choice{p.WDiscard + 1, "discard"})
		tot := 0
		for _, c := range cs {
			tot += c.w
		}
		r := rapid.IntRange(0, tot-1).Draw(t, "op")
		k := ""
		for _, c := range cs {
			if r < c.w {
				k = c.k
				break
			}
			r -= c.w
		}
		op := Op{K: k, S: s}
		switch k {
		case "get", "del", "get_hold", "iter_hold":
			op.Key = rapid.IntRange(0, nkeys-1).Draw(t, "key")
			if k == "del" {
				writes[s]++
			}
		case "set":
			op.Key = rapid.IntRange(0, nkeys-1).Draw(t, "key")
			op.Sz = genValSize(t, p, cfg)
			if p.Meta {
				op.UM = byte(rapid.IntRange(0, 255).Draw(t, "um"))
			}
			if p.TTL && rapid.IntRange(0, 3).Draw(t, "ttl_on") == 0 {
				op.TTL = rapid.SampledFrom([]int{1, 2, 5, 60, 3600}).Draw(t, "ttl")
			}
			if p.Discard && rapid.IntRange(0, 5).Draw(t, "disc") == 0 {
				op.Disc = true
			}
			writes[s]++
		case "iter":
			op.It = genIter(t, p, nkeys, slots[s] == 2)
		case "commit", "commitWith", "discard":
			slots[s] = 0
			if p.Managed {
				if p.TsNarrow {
					op.Ts = uint64(rapid.IntRange(2, 12).Draw(t, "commit_ts_n"))
				} else {
					op.Ts = uint64(rapid.IntRange(31, 90).Draw(t, "commit_ts"))
				}
			}
		}
		ops = append(ops, op)
	}
	// close what is still open
	for s := 0; s < 2; s++ {
		if slots[s] == 2 {
			ops = append(ops, Op{K: "commit", S: s})
		} else if slots[s] == 1 {
			ops = append(ops, Op{K: "discard", S: s})
		}
	}
	return ops
}

// GenCase draws a complete case for the transactional families.
func GenCase(t *rapid.T, p *Profile) *Case {
	c := &Case{Scenario: p.Name}
	c.Cfg = genConfig(t, p)
	c.Keys = genKeys(t, p.MaxKeys)
	nc := rapid.IntRange(p.MinClients, p.MaxClients).Draw(t, "nclients")
	for i := 0; i < nc; i++ {
		c.Clients = append(c.Clients, genClientN(t, p, &c.Cfg, len(c.Keys), p.MaxOps, i))
	}
	c.Sched = genSched(t, p.MaxDec)
	if p.Managed {
		c.Cfg.Managed = true
		c.Cfg.Prefill = 0
		// NewManagedWriteBatch after SetDiscardTs(>0) with conflict detection on
		// aborts the process (known finding, probed separately): keep exploring
		// everything else by never generating that combination.
		hasDiscard, hasMB := false, false
		for _, cl := range c.Clients {
			for _, op := range cl {
				if op.K == "discard_ts" {
					hasDiscard = true
				}
				if op.K == "mbatch" && op.N == 0 {
					hasMB = true
				}
			}
		}
		if hasDiscard && hasMB {
			c.Cfg.DetectConflicts = false
		}
	}
	if p.InMemory {
		c.Cfg.InMemory = true
	}
	// Flatten concurrent with DropPrefix/DropAll crashes the process (known
	// finding, probed from a recorded case): never generate both in one case.
	hasDrop, hasFlatten := false, false
	for _, cl := range c.Clients {
		for _, op := range cl {
			if op.K == "drop_prefix" || op.K == "drop_all" {
				hasDrop = true
			}
			if op.K == "flatten" {
				hasFlatten = true
			}
		}
	}
	if hasDrop && hasFlatten && os.Getenv("VERIF_ALLOW_FLATTEN_WITH_DROPS") == "" { // (the env knob exists to re-record the probe case of the known finding)
		for ci, cl := range c.Clients {
			var keep []Op
			for _, op := range cl {
				if op.K != "flatten" {
					keep = append(keep, op)
				}
			}
			c.Clients[ci] = keep
		}
	}
	// Two overlapping Flatten calls each stop and restart the compactors; the
	// second start overwrites the closer of the first and leaks its compactor
	// goroutines past Close (observed, DESIGN.md §9.4; outside the claimed
	// properties: every call returns). Only one client issues Flatten.
	flattenOwner := -1
	for ci, cl := range c.Clients {
		var keep []Op
		for _, op := range cl {
			if op.K == "flatten" {
				if flattenOwner == -1 {
					flattenOwner = ci
				}
				if flattenOwner != ci {
					continue
				}
			}
			keep = append(keep, op)
		}
		c.Clients[ci] = keep
	}
	if p.Compaction || p.Clock {
		c.Sched.ClockPct = rapid.SampledFrom([]int{2, 5, 15, 30}).Draw(t, "clock_pct")
		c.Sched.ClockMs = rapid.SampledFrom([][]int{
			{50, 50, 50, 100},
			{50, 50, 100, 1000, 11000},
			{50, 1000, 11000, 11000, 3700000},
		}).Draw(t, "clock_ms")
	}
	return c
}
