package sim

import (
	"runtime"
	"unsafe"
)

// getg returns the address of the current goroutine's runtime.g (goid_amd64.s).
func getg() uintptr

// goidOff is the offset of the goid field inside runtime.g, found once at start-up by
// calibration against the slow method (no hard-coded layout: it is re-derived for
// whatever toolchain builds the harness). 0 = not found, use the slow method.
var goidOff uintptr

func init() {
	// the offset must locate the id in two different goroutines
	type probe struct {
		g  uintptr
		id int64
	}
	ch := make(chan probe, 2)
	for i := 0; i < 2; i++ {
		go func() { ch <- probe{getg(), goidSlow()} }()
	}
	a, b := <-ch, <-ch
	if a.g == 0 || b.g == 0 || a.id == b.id {
		return
	}
	for off := uintptr(0); off < 512; off += 8 {
		if *(*int64)(unsafe.Pointer(a.g + off)) == a.id && *(*int64)(unsafe.Pointer(b.g + off)) == b.id {
			// unique?
			n := 0
			for o2 := uintptr(0); o2 < 512; o2 += 8 {
				if *(*int64)(unsafe.Pointer(a.g + o2)) == a.id && *(*int64)(unsafe.Pointer(b.g + o2)) == b.id {
					n++
				}
			}
			if n == 1 {
				goidOff = off
				// cross-check in more goroutines; any disagreement falls back to the slow method
				ok := make(chan bool, 8)
				for i := 0; i < 8; i++ {
					go func() { ok <- *(*int64)(unsafe.Pointer(getg() + off)) == goidSlow() }()
				}
				for i := 0; i < 8; i++ {
					if !<-ok {
						goidOff = 0
					}
				}
			}
			return
		}
	}
}

// goid returns the current goroutine's id. No PRNG, no clock.
func goid() int64 {
	if goidOff != 0 {
		return *(*int64)(unsafe.Pointer(getg() + goidOff))
	}
	return goidSlow()
}

// goidSlow parses the first line of the stack trace ("goroutine 123 [running]:").
func goidSlow() int64 {
	var buf [40]byte
	n := runtime.Stack(buf[:], false)
	var id int64
	for i := 10; i < n; i++ {
		c := buf[i]
		if c < '0' || c > '9' {
			break
		}
		id = id*10 + int64(c-'0')
	}
	return id
}

// GoidFast reports whether the calibrated fast path is in use (evidence / debugging).
func GoidFast() bool { return goidOff != 0 }
