package sim

import (
	"runtime"
)

// goid returns the current goroutine's id by parsing the first line of its
// stack trace ("goroutine 123 [running]:"). About 1 µs; no PRNG, no clock.
func goid() int64 {
	var buf [40]byte
	n := runtime.Stack(buf[:], false)
	// skip "goroutine "
	var id int64
	for i := 10; i < n; i++ {
		c := buf[i]
		if c < '0' || c > '9' {
			break
		}
		id = id*10 + int64(c-'0')
	}
	return id
}
