#include "textflag.h"

// func getg() uintptr
TEXT ·getg(SB),NOSPLIT,$0-8
	MOVQ (TLS), AX
	MOVQ AX, ret+0(FP)
	RET
