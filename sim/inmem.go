package sim

import (
	"fmt"
	"os"
	"strings"
	"testing"
)

// readLines extracts the per-op results of one client from a run's history
// (step numbers removed), for differential comparison.
func readLines(hist []string, client string) []string {
	var out []string
	for _, l := range hist {
		i := strings.IndexByte(l, ' ')
		if i < 0 {
			continue
		}
		body := l[i+1:]
		if !strings.HasPrefix(body, client+" ") {
			continue
		}
		if strings.Contains(body, " get ") || strings.Contains(body, " iter ") || strings.Contains(body, " commit") || strings.Contains(body, " batch ") {
			// drop timestamps that legitimately differ? they do not: same script, same order
			out = append(out, body)
		}
	}
	return out
}

// ExecuteInMemory (C37): (a) the whole case on an InMemory DB under the model
// oracles, with the persistence-event tracker installed: no event may fire and
// no file may appear; (b) the first client's script alone, sequentially, on an
// on-disk and on an InMemory DB: every read and commit result must be identical.
func ExecuteInMemory(t *testing.T, c *Case, prof *Profile, keepHist bool) Outcome {
	mem := *c
	mem.Cfg.InMemory = true
	mem.Cfg.EncKeyLen = 0
	var tracker *DiskTracker
	var runDir string
	out := executeWith(t, &mem, prof, keepHist, func(r *Run) {
		r.disk = NewDiskTracker(uniqueDirs(r.dir, r.vdir), false, 0, 0)
		tracker = r.disk
		runDir = r.dir
	}, func(t *testing.T, r *Run) {
		if r.viol != nil || r.harness != "" {
			return
		}
		if tracker.Events > 0 {
			var kinds []string
			for k, n := range tracker.Kinds {
				kinds = append(kinds, fmt.Sprintf("%s x%d", k, n))
			}
			r.viol = &Violation{Props: []string{"C37"}, Rule: "inmemory-io", Msg: fmt.Sprintf("an InMemory database performed file operations: %v", kinds)}
			return
		}
		if ents, _ := os.ReadDir(runDir); len(ents) > 0 {
			r.viol = &Violation{Props: []string{"C37"}, Rule: "inmemory-files", Msg: fmt.Sprintf("an InMemory database created %d file(s) in its working directory, e.g. %s", len(ents), ents[0].Name())}
			return
		}
		r.stats.Checks++
	})
	if out.Viol != nil || out.Harness != "" || len(c.Clients) == 0 {
		return out
	}
	// (b) differential, single client, sequential schedule
	one := *c
	one.Clients = c.Clients[:1]
	one.Sched = Sched{}
	one.Cfg.Groups = []string{"client"}
	one.Cfg.EncKeyLen = 0
	oneMem := one
	oneMem.Cfg.InMemory = true
	od := Execute(t, &one, prof, true)
	om := Execute(t, &oneMem, prof, true)
	if od.Harness != "" || om.Harness != "" {
		out.Harness = od.Harness + om.Harness
		return out
	}
	if od.Viol != nil {
		out.Viol = od.Viol
		return out
	}
	if om.Viol != nil {
		out.Viol = om.Viol
		return out
	}
	a, b := readLines(od.Hist, "c0"), readLines(om.Hist, "c0")
	n := len(a)
	if len(b) < n {
		n = len(b)
	}
	for i := 0; i < n; i++ {
		if a[i] != b[i] {
			out.Viol = &Violation{Props: []string{"C37"}, Rule: "inmemory-differs-from-disk", Msg: fmt.Sprintf("same script, op result %d differs: on disk %q, in memory %q", i, a[i], b[i])}
			return out
		}
	}
	if len(a) != len(b) {
		out.Viol = &Violation{Props: []string{"C37"}, Rule: "inmemory-differs-from-disk", Msg: fmt.Sprintf("same script produced %d results on disk and %d in memory", len(a), len(b))}
		return out
	}
	out.Stats.Checks += uint64(len(a))
	out.Stats.Probes["differential_results_compared"] += uint64(len(a))
	return out
}
