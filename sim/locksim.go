package sim

import (
	"bufio"
	"fmt"
	"io"
	"os"
	"os/exec"
	"path/filepath"
	"strings"
	"testing"

	badger "github.com/dgraph-io/badger/v4"
	"pgregory.net/rapid"
)

// ---- C35: directory locking excludes a second writer ----

func lockOpts(dir, vdir string, ro bool) badger.Options {
	opt := badger.DefaultOptions(dir)
	opt.ValueDir = vdir
	opt.Logger = nil
	opt.MetricsEnabled = false
	opt.ReadOnly = ro
	opt.MemTableSize = 1 << 20
	opt.ValueThreshold = 1 << 10
	opt.ValueLogFileSize = 1 << 20
	opt.NumCompactors = 0
	opt.NumLevelZeroTablesStall = 100000
	opt.BlockCacheSize = 0
	opt.Compression = 0
	return opt
}

// LockChildMain is the body of the helper process ("-mode lockchild").
func LockChildMain(in io.Reader, out io.Writer) {
	slots := map[string]*badger.DB{}
	sc := bufio.NewScanner(in)
	for sc.Scan() {
		f := strings.Fields(sc.Text())
		if len(f) == 0 {
			continue
		}
		switch f[0] {
		case "open":
			db, err := badger.Open(lockOpts(f[3], f[4], f[2] == "ro"))
			if err != nil {
				fmt.Fprintf(out, "err %s\n", strings.ReplaceAll(firstLine(err.Error()), "\n", " "))
			} else {
				slots[f[1]] = db
				fmt.Fprintln(out, "ok")
			}
		case "close":
			if db := slots[f[1]]; db != nil {
				err := db.Close()
				delete(slots, f[1])
				if err != nil {
					fmt.Fprintf(out, "err %s\n", firstLine(err.Error()))
					continue
				}
			}
			fmt.Fprintln(out, "ok")
		case "quit":
			for _, db := range slots {
				db.Close()
			}
			fmt.Fprintln(out, "ok")
			return
		}
	}
}

func genLockCase(t *rapid.T) *Case {
	c := &Case{Scenario: "SEQ-C35"}
	n := rapid.IntRange(2, 14).Draw(t, "nops")
	var ops []Op
	for i := 0; i < n; i++ {
		// S = actor*2+slot (actor 0 = this process, actor 1 = child process), Key = directory layout 0..2
		op := Op{S: rapid.IntRange(0, 3).Draw(t, "handle"), Key: rapid.IntRange(0, 3).Draw(t, "layout")}
		switch rapid.IntRange(0, 4).Draw(t, "kind") {
		case 0, 1:
			op.K = "open_rw"
		case 2:
			op.K = "open_ro"
		default:
			op.K = "close"
		}
		ops = append(ops, op)
	}
	c.Clients = [][]Op{ops}
	return c
}

// ExecuteLocks runs one open/close ordering across two processes.
func ExecuteLocks(t *testing.T, c *Case, keep bool) (out Outcome) {
	out.Stats.Probes = map[string]uint64{}
	out.Stats.Known = map[string]uint64{}
	root, err := os.MkdirTemp(shmDir(), "vlock-")
	if err != nil {
		out.Harness = err.Error()
		return
	}
	defer os.RemoveAll(root)
	// layouts: 0 = Dir==ValueDir (A), 1 = Dir A + ValueDir B (shares A with layout 0), 2 = Dir C + ValueDir B (shares B with layout 1)
	// 3 = Dir D + ValueDir B: a second database whose value directory is the one of layout 2
	A, B, C, D := filepath.Join(root, "A"), filepath.Join(root, "B"), filepath.Join(root, "C"), filepath.Join(root, "D")
	layouts := [][2]string{{A, A}, {A, B}, {C, B}, {D, B}}
	// create the databases first (read-only opens need an existing one)
	for _, l := range layouts {
		os.MkdirAll(l[0], 0o755)
		os.MkdirAll(l[1], 0o755)
	}
	for _, l := range [][2]string{{A, A}, {C, B}, {D, B}} {
		db, err := badger.Open(lockOpts(l[0], l[1], false))
		if err != nil {
			out.Harness = "initial open: " + err.Error()
			return
		}
		db.Update(func(txn *badger.Txn) error { return txn.Set([]byte("k"), []byte("v")) })
		db.Close()
	}
	self, _ := os.Executable()
	cmd := exec.Command(self, "-test.run", "^TestSim$", "-test.timeout", "0", "-mode", "lockchild")
	stdin, _ := cmd.StdinPipe()
	stdout, _ := cmd.StdoutPipe()
	cmd.Stderr = io.Discard
	if err := cmd.Start(); err != nil {
		out.Harness = "start child: " + err.Error()
		return
	}
	rd := bufio.NewReader(stdout)
	child := func(line string) string {
		fmt.Fprintln(stdin, line)
		for {
			s, err := rd.ReadString('\n')
			if err != nil {
				return "err child died: " + err.Error()
			}
			s = strings.TrimSpace(s)
			if s == "ok" || strings.HasPrefix(s, "err") {
				return s
			}
		}
	}
	defer func() {
		child("quit")
		stdin.Close()
		cmd.Wait()
	}()
	local := map[int]*badger.DB{}
	// model: per directory, holders: map handle -> mode
	type hold struct {
		ro   bool
		dirs []string
	}
	holders := map[int]hold{}
	conflict := func(dirs []string, ro bool) string {
		for h, hd := range holders {
			for _, d := range hd.dirs {
				for _, e := range dirs {
					if d == e && (!ro || !hd.ro) {
						return fmt.Sprintf("directory %s is held by handle %d (read-only=%v)", filepath.Base(d), h, hd.ro)
					}
				}
			}
		}
		return ""
	}
	for i, op := range c.Clients[0] {
		h := op.S
		l := layouts[op.Key%4]
		dirs := []string{l[0]}
		if l[1] != l[0] {
			dirs = append(dirs, l[1])
		}
		switch op.K {
		case "open_rw", "open_ro":
			if _, busy := holders[h]; busy {
				continue
			}
			ro := op.K == "open_ro"
			if ro && op.Key%4 == 1 {
				continue // layout 1 (Dir A + ValueDir B) is not a database of its own: read-only needs an existing one
			}
			if !ro && op.Key%4 == 1 {
				continue // writing a second database into A/B would corrupt the others; the lock cases are covered by 0 and 2
			}
			why := conflict(dirs, ro)
			var res string
			if h < 2 {
				db, err := badger.Open(lockOpts(l[0], l[1], ro))
				if err != nil {
					res = "err " + firstLine(err.Error())
				} else {
					res = "ok"
					local[h] = db
				}
			} else {
				mode := "rw"
				if ro {
					mode = "ro"
				}
				res = child(fmt.Sprintf("open %d %s %s %s", h, mode, l[0], l[1]))
			}
			out.Stats.Checks++
			okExpected := why == ""
			if okExpected && res != "ok" {
				out.Viol = &Violation{Props: []string{"C35"}, Rule: "open-refused", Msg: fmt.Sprintf("op %d: handle %d open(%s, layout %d) failed although nobody holds a conflicting lock: %s", i, h, op.K, op.Key%4, res)}
				goto done
			}
			if !okExpected && res == "ok" {
				out.Viol = &Violation{Props: []string{"C35"}, Rule: "second-opener-admitted", Msg: fmt.Sprintf("op %d: handle %d open(%s, layout %d) succeeded although %s", i, h, op.K, op.Key%4, why)}
				goto done
			}
			if res == "ok" {
				holders[h] = hold{ro: ro, dirs: dirs}
				if len(holders) > 1 {
					out.Stats.NonTrivial = true
				}
			} else {
				out.Stats.Probes["opens_refused"]++
				out.Stats.NonTrivial = true
			}
		case "close":
			if _, busy := holders[h]; !busy {
				continue
			}
			var res string
			if h < 2 {
				if err := local[h].Close(); err != nil {
					res = "err " + err.Error()
				} else {
					res = "ok"
				}
				delete(local, h)
			} else {
				res = child(fmt.Sprintf("close %d", h))
			}
			delete(holders, h)
			if res != "ok" {
				out.Viol = &Violation{Props: []string{"C35"}, Rule: "close-error", Msg: fmt.Sprintf("op %d: closing handle %d failed: %s", i, h, res)}
				goto done
			}
		}
	}
done:
	for _, db := range local {
		db.Close()
	}
	// digest = the op sequence itself
	hsh := uint64(1469598103934665603)
	for _, op := range c.Clients[0] {
		for _, b := range []byte(fmt.Sprintf("%s/%d/%d;", op.K, op.S, op.Key)) {
			hsh ^= uint64(b)
			hsh *= 1099511628211
		}
	}
	out.Stats.Digest = hsh
	out.Stats.Ops = len(c.Clients[0])
	return
}
