package sim

import (
	"bytes"
	"fmt"
	"os"
	"path/filepath"
	"sort"
	"strings"
	"testing"

	badger "github.com/dgraph-io/badger/v4"
	"github.com/dgraph-io/badger/v4/y"
)

// ---- C16: WAL / value-log records round-trip and replay in transaction units ----

const (
	bitDelete       = 1 << 0
	bitValuePointer = 1 << 1
	bitDiscard      = 1 << 2
	bitMerge        = 1 << 3
	bitTxn          = 1 << 6
	bitFinTxn       = 1 << 7
)

type logSnap struct {
	dir   string
	files []string // .mem and .vlog files, sorted
}

// copyDir copies every regular file of src into dst.
func copyDir(src, dst string) error {
	if err := os.MkdirAll(dst, 0o755); err != nil {
		return err
	}
	ents, err := os.ReadDir(src)
	if err != nil {
		return err
	}
	for _, e := range ents {
		if e.IsDir() || e.Name() == "LOCK" {
			continue
		}
		b, err := os.ReadFile(filepath.Join(src, e.Name()))
		if err != nil {
			return err
		}
		if err := os.WriteFile(filepath.Join(dst, e.Name()), b, 0o644); err != nil {
			return err
		}
	}
	return nil
}

func fidOf(name string) uint32 {
	var fid uint32
	fmt.Sscanf(name, "%d", &fid)
	return fid
}

// checkLogFile iterates one log file with the production code and compares
// every delivered record with the model. It returns the delivered records'
// identities (for the corruption phase) or a violation.
func (r *Run) checkLogFile(snapDir, name string, opt badger.Options, vlogs map[uint32][]byte, strict bool) ([]string, *Violation) {
	path := filepath.Join(snapDir, name)
	ents, _, err := badger.VerifIterateLog(path, fidOf(name), opt)
	mk := func(rule, format string, args ...interface{}) *Violation {
		return &Violation{Props: []string{"C16"}, Rule: rule, Msg: name + ": " + fmt.Sprintf(format, args...)}
	}
	if err != nil {
		if strict {
			return nil, mk("log-iterate-error", "iterating an intact log failed: %v", err)
		}
		return nil, nil // a damaged log may be rejected as a whole
	}
	var ids []string
	var lastTxnTs uint64
	for _, e := range ents {
		if len(e.Key) < 8 {
			return nil, mk("log-record-garbage", "record at offset %d has a %d-byte key", e.Offset, len(e.Key))
		}
		ukey := y.ParseKey(e.Key)
		ver := y.ParseTs(e.Key)
		if e.Meta&bitFinTxn != 0 {
			continue // never delivered by iterate; defensive
		}
		if bytes.HasPrefix(ukey, []byte("!badger!")) {
			continue
		}
		// locate the model write
		var mv *Version
		r.mu.Lock()
		for i := range r.model.Keys[string(ukey)] {
			v := &r.model.Keys[string(ukey)][i]
			if v.Ts == ver {
				mv = v
			}
		}
		r.mu.Unlock()
		if mv == nil {
			return nil, mk("log-record-unknown", "delivered record %q@%d (offset %d, meta %#x) was never written", ukey, ver, e.Offset, e.Meta)
		}
		val := e.Value
		if e.Meta&bitValuePointer != 0 {
			// WAL record of a value that lives in the value log: follow the pointer
			fid, ln, off := badger.VerifDecodeValuePointer(e.Value)
			data, ok := vlogs[fid]
			if !ok || int(off+ln) > len(data) {
				if strict {
					return nil, mk("log-pointer-dangling", "record %q@%d points to vlog %d [%d,+%d) which does not exist in the image", ukey, ver, fid, off, ln)
				}
				continue
			}
			// the pointed-to bytes must decode (through the real iterate over that vlog) to the same entry
			found := false
			for _, ve := range r.vlogEntries[fid] {
				if ve.Offset == off {
					found = true
					if !bytes.Equal(ve.Key, e.Key) {
						return nil, mk("log-pointer-wrong-record", "record %q@%d points to vlog %d offset %d which holds %q@%d", ukey, ver, fid, off, y.ParseKey(ve.Key), y.ParseTs(ve.Key))
					}
					val = ve.Value
				}
			}
			if !found {
				if strict {
					return nil, mk("log-pointer-not-a-record", "record %q@%d points to vlog %d offset %d where iterate found no record", ukey, ver, fid, off)
				}
				continue
			}
		}
		wantDel := mv.Del
		gotDel := e.Meta&bitDelete != 0
		if wantDel != gotDel || (!wantDel && !bytes.Equal(val, mv.Val)) || e.UserMeta != mv.UM || e.ExpiresAt != mv.Exp || (e.Meta&bitDiscard != 0) != mv.Disc {
			return nil, mk("log-record-differs", "record %q@%d (offset %d): delivered {del=%v val=%s um=%d exp=%d meta=%#x}, written %s disc=%v", ukey, ver, e.Offset, gotDel, short(val), e.UserMeta, e.ExpiresAt, e.Meta, mv, mv.Disc)
		}
		if e.Meta&bitTxn != 0 {
			if ver < lastTxnTs && strings.HasSuffix(name, ".mem") {
				return nil, mk("log-order", "transaction %d delivered after transaction %d", ver, lastTxnTs)
			}
			lastTxnTs = ver
		}
		ids = append(ids, fmt.Sprintf("%s@%d@%d", ukey, ver, e.Offset))
	}
	// transaction units: every delivered transactional commit is complete in this file
	if strings.HasSuffix(name, ".mem") {
		byTs := map[uint64]int{}
		for _, e := range ents {
			if e.Meta&bitTxn != 0 {
				byTs[y.ParseTs(e.Key)]++
			}
		}
		r.mu.Lock()
		for _, c := range r.model.Commits {
			if n, ok := byTs[c.Ts]; ok && !c.Failed && n != len(c.Writes) {
				r.mu.Unlock()
				return nil, mk("log-partial-transaction", "transaction %d was delivered with %d of its %d entries", c.Ts, n, len(c.Writes))
			}
		}
		r.mu.Unlock()
	}
	return ids, nil
}

// ExecuteLogs (C16): run a history, image the directory before Close, then
// (a) iterate every WAL and value-log file with the production code and compare
// with the model, (b) flip one byte at every position of the last records of
// every log: no altered record may be delivered, earlier records are unaffected.
func ExecuteLogs(t *testing.T, c *Case, prof *Profile, keepHist bool) Outcome {
	var snapDir string
	return executeWith(t, c, prof, keepHist, func(r *Run) {
		r.extra = func(r *Run) {
			snapDir = filepath.Join(filepath.Dir(r.dir), "snap")
			if err := copyDir(r.dir, snapDir); err != nil {
				r.harness = "snapshot: " + err.Error()
			}
		}
	}, func(t *testing.T, r *Run) {
		if r.viol != nil || r.harness != "" || snapDir == "" {
			return
		}
		cfg := r.c.Cfg
		opt := BadgerOptions(&cfg, snapDir, snapDir)
		ents, _ := os.ReadDir(snapDir)
		var mems, vls []string
		for _, e := range ents {
			if strings.HasSuffix(e.Name(), ".mem") {
				mems = append(mems, e.Name())
			}
			if strings.HasSuffix(e.Name(), ".vlog") {
				vls = append(vls, e.Name())
			}
		}
		sort.Strings(mems)
		sort.Strings(vls)
		vlogs := map[uint32][]byte{}
		r.vlogEntries = map[uint32][]badger.VerifLogEntry{}
		for _, n := range vls {
			b, _ := os.ReadFile(filepath.Join(snapDir, n))
			vlogs[fidOf(n)] = b
			es, _, err := badger.VerifIterateLog(filepath.Join(snapDir, n), fidOf(n), opt)
			if err != nil {
				r.viol = &Violation{Props: []string{"C16"}, Rule: "log-iterate-error", Msg: n + ": " + err.Error()}
				return
			}
			r.vlogEntries[fidOf(n)] = es
		}
		total := 0
		type fileIDs struct {
			name string
			ids  []string
		}
		var intact []fileIDs
		for _, n := range append(append([]string{}, vls...), mems...) {
			ids, v := r.checkLogFile(snapDir, n, opt, vlogs, true)
			if v != nil {
				r.viol = v
				return
			}
			intact = append(intact, fileIDs{n, ids})
			total += len(ids)
			r.stats.Checks++
		}
		r.stats.Probes["log_records_verified"] += uint64(total)
		if total > 1 {
			r.stats.NonTrivial = true
		}
		// (b) single-byte corruption at every position of the tail of every log
		for _, f := range intact {
			path := filepath.Join(snapDir, f.name)
			orig, _ := os.ReadFile(path)
			end := len(bytes.TrimRight(orig, "\x00"))
			start := end - 160
			if start < 20 {
				start = 20
			}
			// the flips are applied in place to a copy cut 4 KiB after the last record
			// (the zero-filled remainder of a 1-2 MiB log adds nothing but copying time)
			trim := end + 4096
			if trim > len(orig) {
				trim = len(orig)
			}
			os.WriteFile(path, orig[:trim], 0o644)
			fh, ferr := os.OpenFile(path, os.O_RDWR, 0o644)
			if ferr != nil {
				r.harness = "open log copy: " + ferr.Error()
				return
			}
			defer fh.Close()
			for k := start; k < end; k++ {
				if k > start {
					fh.WriteAt([]byte{orig[k-1]}, int64(k-1))
				}
				fh.WriteAt([]byte{orig[k] ^ 0x5a}, int64(k))
				if strings.HasSuffix(f.name, ".vlog") {
					es, _, err := badger.VerifIterateLog(path, fidOf(f.name), opt)
					if err == nil {
						r.vlogEntries[fidOf(f.name)] = es
					}
				}
				ids, v := r.checkLogFile(snapDir, f.name, opt, vlogs, false)
				r.stats.Probes["fault:log_byte_flipped"]++
				if v != nil {
					v.Msg = fmt.Sprintf("with byte %d of %d flipped: %s", k, end, v.Msg)
					v.Rule = "corrupt-" + v.Rule
					r.viol = v
					os.WriteFile(path, orig, 0o644)
					return
				}
				// delivered records must be a prefix of the intact delivery
				for i, id := range ids {
					if i >= len(f.ids) || f.ids[i] != id {
						r.viol = &Violation{Props: []string{"C16"}, Rule: "corrupt-log-delivery-changed", Msg: fmt.Sprintf("%s with byte %d flipped: record %d delivered as %s, intact log delivers %v", f.name, k, i, id, f.ids)}
						os.WriteFile(path, orig, 0o644)
						return
					}
				}
				r.stats.Checks++
			}
			os.WriteFile(path, orig, 0o644)
			if strings.HasSuffix(f.name, ".vlog") {
				es, _, _ := badger.VerifIterateLog(path, fidOf(f.name), opt)
				r.vlogEntries[fidOf(f.name)] = es
			}
		}
	})
}
