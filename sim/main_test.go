package sim

import (
	"crypto/sha256"
	"encoding/hex"
	"encoding/json"
	"flag"
	"fmt"
	"os"
	"os/exec"
	"path/filepath"
	"sort"
	"strings"
	"sync"
	"testing"
	"time"

	"github.com/dgraph-io/badger/v4/y"
	"pgregory.net/rapid"
)

var (
	fMode     = flag.String("mode", "", "worker|replay|orchestrate|determinism")
	fProp     = flag.String("prop", "C01", "property id")
	fSeed     = flag.Uint64("seed", 1, "base seed (VERIF_SEED)")
	fBudget   = flag.Duration("budget", 20*time.Second, "wall-clock budget")
	fOut      = flag.String("out", "", "worker stats output (json)")
	fReplay   = flag.String("replay", "", "replay file")
	fWorkers  = flag.Int("workers", 16, "worker processes")
	fTier     = flag.String("tier", "quick", "quick|thorough")
	fVerifDir = flag.String("verifdir", "/verif", "root of /verif")
	fVerbose  = flag.Bool("vv", false, "print history of failing case")
	fDump     = flag.Int("dump", -1, "determinism mode: dump trace of this case index")
	fMaxRuns  = flag.Int("maxruns", 0, "stop after this many runs (0 = budget only)")
)

// quietTB lets rapid run without failing the surrounding test.
type quietTB struct {
	name   string
	failed bool
	msgs   []string
}

func (q *quietTB) Helper()                  {}
func (q *quietTB) Name() string             { return q.name }
func (q *quietTB) Logf(f string, a ...any)  {}
func (q *quietTB) Log(a ...any)             {}
func (q *quietTB) Skipf(f string, a ...any) {}
func (q *quietTB) Skip(a ...any)            {}
func (q *quietTB) SkipNow()                 {}
func (q *quietTB) Errorf(f string, a ...any) {
	q.failed = true
	q.msgs = append(q.msgs, fmt.Sprintf(f, a...))
}
func (q *quietTB) Error(a ...any) { q.failed = true; q.msgs = append(q.msgs, fmt.Sprint(a...)) }
func (q *quietTB) Fatalf(f string, a ...any) {
	q.failed = true
	q.msgs = append(q.msgs, fmt.Sprintf(f, a...))
}
func (q *quietTB) Fatal(a ...any) { q.failed = true; q.msgs = append(q.msgs, fmt.Sprint(a...)) }
func (q *quietTB) FailNow()       { q.failed = true }
func (q *quietTB) Fail()          { q.failed = true }
func (q *quietTB) Failed() bool   { return q.failed }

// WorkerStats is what one worker process reports.
type WorkerStats struct {
	Prop       string            `json:"prop"`
	Seed       uint64            `json:"seed"`
	Runs       int               `json:"runs"`
	ShrinkRuns int               `json:"shrink_runs"`
	Steps      uint64            `json:"steps"`
	Decisions  uint64            `json:"decisions"`
	Switches   uint64            `json:"switches"`
	Checks     uint64            `json:"checks"`
	Ops        int               `json:"ops"`
	SimNs      int64             `json:"sim_ns"`
	WallS      float64           `json:"wall_s"`
	Probes     map[string]uint64 `json:"probes"`
	Digests    []uint64          `json:"digests"`    // distinct interleavings of non-trivial runs (capped)
	NonTrivial int               `json:"nontrivial"` // runs that were non-trivial
	DistinctNT int               `json:"distinct_nt"`
	Violations []FoundViolation  `json:"violations"`
	Harness    []string          `json:"harness"`
	Samples    []json.RawMessage `json:"samples"`
	Fallback   json.RawMessage   `json:"fallback_sample,omitempty"`
	Seeds      []uint64          `json:"seeds"`
	Known      map[string]uint64 `json:"known"`
	SlowMs     int64             `json:"slow_ms"`
	SlowCase   json.RawMessage   `json:"slow_case,omitempty"`
}

type FoundViolation struct {
	Viol   Violation `json:"violation"`
	Replay string    `json:"replay"`
	Seed   uint64    `json:"seed"`
	Other  bool      `json:"other_property"`
}

func warmup() {
	if os.Getenv("VERIF_TIMING") != "" {
		fmt.Fprintf(os.Stderr, "timing: fast goroutine ids: %v\n", GoidFast())
	}
	// y/zstd.go lazily creates a global encoder/decoder that own channels; they
	// must be created outside any synctest bubble.
	b, err := y.ZSTDCompress(nil, []byte("warmup warmup warmup warmup"), 1)
	if err == nil {
		_, _ = y.ZSTDDecompress(nil, b)
	}
}

func TestSim(t *testing.T) {
	switch *fMode {
	case "":
		t.Skip("no -mode given")
	case "worker":
		runWorker(t)
	case "replay":
		runReplay(t)
	case "orchestrate":
		runOrchestrate(t)
	case "determinism":
		runDeterminism(t)
	case "lockchild":
		LockChildMain(os.Stdin, os.Stdout)
	default:
		t.Fatalf("unknown mode %q", *fMode)
	}
}

func scenarioFor(t *testing.T, prop string) *Scenario {
	s := Scenarios[prop]
	if s == nil {
		fmt.Fprintf(os.Stderr, "no scenario for property %s\n", prop)
		os.Exit(2)
	}
	return s
}

func execCase(t *testing.T, s *Scenario, c *Case, keep bool) Outcome {
	if s.Run != nil {
		return s.Run(t, c, keep)
	}
	return Execute(t, c, s.Profile, keep)
}

func runWorker(t *testing.T) {
	warmup()
	s := scenarioFor(t, *fProp)
	st := &WorkerStats{Prop: s.Prop, Seed: *fSeed, Probes: map[string]uint64{}, Known: map[string]uint64{}}
	start := time.Now()
	deadline := start.Add(*fBudget)
	digests := map[uint64]bool{}
	flag.Set("rapid.nofailfile", "true")
	shrink := "30s"
	if *fTier == "thorough" {
		shrink = "120s"
	}
	flag.Set("rapid.shrinktime", shrink)
	iter := uint64(0)
	foundOwn := false
	for time.Now().Before(deadline) && !foundOwn && (*fMaxRuns == 0 || st.Runs < *fMaxRuns) {
		rseed := *fSeed*1000003 + iter
		iter++
		flag.Set("rapid.seed", fmt.Sprint(rseed))
		flag.Set("rapid.checks", "20")
		st.Seeds = append(st.Seeds, rseed)
		var minFail *Case
		var minViol *Violation
		failing := false
		qtb := &quietTB{name: "sim"}
		rapid.Check(qtb, func(rt *rapid.T) {
			c := s.Gen(rt)
			c.Prop = s.Prop
			if !failing && !time.Now().Before(deadline) {
				return // budget exhausted: remaining checks are no-ops
			}
			if *fOut != "" {
				// if badger aborts the process inside this run, the parent finds the case here
				_ = os.WriteFile(*fOut+".cur", c.JSON(), 0o644)
			}
			if v := os.Getenv("VERIF_TEST_STALL_RUN"); v != "" && fmt.Sprint(st.Runs) == v && *fSeed%64 == 0 {
				// self-test of the stall handling: worker 0 "hangs" once, outside any case logic
				_ = os.WriteFile(*fOut+".cur", c.JSON(), 0o644)
				fmt.Fprintf(os.Stderr, "WATCHDOG: (self-test) simulated stall\n")
				os.Exit(2)
			}
			t0 := time.Now()
			out := execCase(t, s, c, false)
			if ms := time.Since(t0).Milliseconds(); ms > st.SlowMs {
				st.SlowMs, st.SlowCase = ms, c.JSON()
			}
			if failing {
				st.ShrinkRuns++
			} else {
				st.Runs++
				if s.NonTrivialProbe != "" {
					out.Stats.NonTrivial = out.Stats.Probes[s.NonTrivialProbe] > 0
				}
				st.accumulate(&out, c, digests)
			}
			if out.Harness != "" {
				st.Harness = append(st.Harness, out.Harness)
				fmt.Fprintf(os.Stderr, "HARNESS: %s\ncase: %s\n", out.Harness, c.JSON())
				return
			}
			if out.Viol != nil {
				if k := matchKnown(s.Prop, out.Viol); k != nil {
					// a recorded, unrepaired genuine defect: count it and go on
					st.Known[k.What]++
					return
				}
			}
			if out.Viol != nil && out.Viol.HasProp(s.Prop) {
				failing = true
				b := c.JSON()
				if minFail == nil || len(b) < len(minFail.JSON()) {
					cc := *c
					minFail = &cc
					v := *out.Viol
					minViol = &v
				}
				rt.Fatalf("violation: %s", out.Viol)
			} else if out.Viol != nil {
				// a rule of another property fired; note it, keep going
				st.Violations = append(st.Violations, FoundViolation{Viol: *out.Viol, Seed: rseed, Other: true})
				if d := os.Getenv("VERIF_KEEP_OTHER"); d != "" {
					_ = os.WriteFile(filepath.Join(d, fmt.Sprintf("other-%s-%s-%d.json", s.Prop, out.Viol.Rule, rseed)), c.JSON(), 0o644)
				}
			}
		})
		if minFail != nil {
			path, ok := confirmAndWrite(t, s, minFail, minViol, rseed)
			if ok {
				st.Violations = append(st.Violations, FoundViolation{Viol: *minViol, Replay: path, Seed: rseed})
				foundOwn = true
			} else {
				st.Harness = append(st.Harness, "violation did not reproduce on immediate re-execution: "+minViol.String())
			}
		}
	}
	st.WallS = time.Since(start).Seconds()
	for d := range digests {
		if len(st.Digests) < 200000 {
			st.Digests = append(st.Digests, d)
		}
	}
	st.DistinctNT = len(digests)
	if *fOut != "" {
		b, _ := json.Marshal(st)
		if err := os.WriteFile(*fOut, b, 0o644); err != nil {
			fmt.Fprintln(os.Stderr, "write stats:", err)
			os.Exit(2)
		}
	}
}

func (st *WorkerStats) accumulate(out *Outcome, c *Case, digests map[uint64]bool) {
	st.Steps += out.Stats.Steps
	st.Decisions += out.Stats.Decisions
	st.Switches += out.Stats.Switches
	st.Checks += out.Stats.Checks
	st.Ops += out.Stats.Ops
	st.SimNs += int64(out.Stats.SimTime)
	for k, v := range out.Stats.Probes {
		st.Probes[k] += v
	}
	for k, v := range out.Stats.Known {
		st.Known[k] += v
	}
	if out.Stats.NonTrivial {
		st.NonTrivial++
		digests[out.Stats.Digest] = true
	}
	if len(st.Samples) < 2 && out.Stats.NonTrivial {
		st.Samples = append(st.Samples, sampleOf(c, out))
	}
	if st.Fallback == nil {
		st.Fallback = sampleOf(c, out) // used only when no non-trivial run exists to show
	}
}

func sampleOf(c *Case, out *Outcome) json.RawMessage {
	type sample struct {
		Case   *Case  `json:"case"`
		Steps  uint64 `json:"steps"`
		Digest string `json:"interleaving_digest"`
	}
	b, _ := json.Marshal(sample{Case: c, Steps: out.Stats.Steps, Digest: fmt.Sprintf("%016x", out.Stats.Digest)})
	return b
}

// confirmAndWrite re-executes the minimal failing case and, when it fails the
// same way, writes the replay file.
func confirmAndWrite(t *testing.T, s *Scenario, c *Case, v *Violation, seed uint64) (string, bool) {
	out1 := execCase(t, s, c, true)
	if out1.Viol == nil || out1.Viol.Rule != v.Rule {
		return "", false
	}
	c.Expect = out1.Viol
	c.Digest = fmt.Sprintf("%016x", out1.Stats.Digest)
	b := c.JSON()
	h := sha256.Sum256(b)
	dir := filepath.Join(*fVerifDir, "replays")
	os.MkdirAll(dir, 0o755)
	path := filepath.Join(dir, fmt.Sprintf("%s-%d-%s.json", s.Prop, seed, hex.EncodeToString(h[:4])))
	if err := os.WriteFile(path, b, 0o644); err != nil {
		fmt.Fprintln(os.Stderr, "write replay:", err)
		return "", false
	}
	if *fVerbose {
		for _, l := range out1.Hist {
			fmt.Fprintln(os.Stderr, "  hist:", l)
		}
	}
	return path, true
}

func runReplay(t *testing.T) {
	warmup()
	TraceWanted = *fVerbose
	c, err := LoadCase(*fReplay)
	if err != nil {
		fmt.Fprintln(os.Stderr, "load replay:", err)
		os.Exit(2)
	}
	prop := c.Prop
	if prop == "" {
		prop = *fProp
	}
	s := scenarioFor(t, prop)
	out := execCase(t, s, c, true)
	if *fVerbose {
		for _, l := range out.Trace {
			fmt.Println("  trace:", l)
		}
		for _, l := range out.Hist {
			fmt.Println("  hist:", l)
		}
	}
	if out.Harness != "" {
		fmt.Println("HARNESS:", out.Harness)
		os.Exit(2)
	}
	dg := fmt.Sprintf("%016x", out.Stats.Digest)
	if os.Getenv("VERIF_STATS") != "" {
		type kv struct {
			k string
			v uint64
		}
		var top []kv
		for k, v := range out.Stats.Probes {
			top = append(top, kv{k, v})
		}
		sort.Slice(top, func(i, j int) bool { return top[i].v > top[j].v || top[i].v == top[j].v && top[i].k < top[j].k })
		if len(top) > 25 {
			top = top[:25]
		}
		fmt.Printf("REPLAY-STATS steps=%d decisions=%d sim=%v checks=%d top=%v\n", out.Stats.Steps, out.Stats.Decisions, out.Stats.SimTime, out.Stats.Checks, top)
	}
	if out.Viol == nil {
		fmt.Printf("REPLAY-OK no violation (digest %s)\n", dg)
		if c.Expect != nil {
			os.Exit(3) // expected a violation but none: not reproduced
		}
		return
	}
	fmt.Printf("REPLAY-VIOLATION property=%s rule=%s digest=%s\n  %s\n", prop, out.Viol.Rule, dg, out.Viol.Msg)
	if c.Expect != nil && (c.Expect.Rule != out.Viol.Rule || (c.Digest != "" && c.Digest != dg)) {
		fmt.Printf("REPLAY-MISMATCH expected rule=%s digest=%s\n", c.Expect.Rule, c.Digest)
		os.Exit(3)
	}
	os.Exit(1)
}

// ---------- orchestrator ----------

type knownFinding struct {
	Kind     string `json:"kind"` // "known" | "fixed"
	Property string `json:"property"`
	Rule     string `json:"rule"`
	Match    string `json:"match"` // substring that must occur in the violation message
	What     string `json:"what"`
	Commit   string `json:"commit,omitempty"`
	Probe    string `json:"probe,omitempty"` // replay file (relative to /verif) that still triggers the finding
}

var knownCache []knownFinding
var knownLoaded bool

// matchKnown returns the known (unrepaired) finding a violation corresponds to, if any.
func matchKnown(prop string, v *Violation) *knownFinding {
	if !knownLoaded {
		knownCache = loadKnown()
		knownLoaded = true
	}
	for i := range knownCache {
		k := &knownCache[i]
		if k.Kind != "known" || k.Rule != v.Rule || !v.HasProp(k.Property) {
			continue
		}
		ok := true
		for _, m := range strings.Split(k.Match, "&&") {
			if !strings.Contains(v.Msg, strings.TrimSpace(m)) {
				ok = false
			}
		}
		if ok {
			return k
		}
	}
	return nil
}

func loadKnown() []knownFinding {
	f, err := os.ReadFile(filepath.Join(*fVerifDir, "known_findings.jsonl"))
	if err != nil {
		return nil
	}
	var out []knownFinding
	for _, l := range strings.Split(string(f), "\n") {
		l = strings.TrimSpace(l)
		if l == "" || strings.HasPrefix(l, "#") || strings.HasPrefix(l, "fixed:") {
			continue
		}
		var k knownFinding
		if json.Unmarshal([]byte(l), &k) == nil {
			out = append(out, k)
		}
	}
	return out
}

func runOrchestrate(t *testing.T) {
	s := scenarioFor(t, *fProp)
	start := time.Now()
	self, _ := os.Executable()
	tmp, err := os.MkdirTemp(shmDir(), "vorch-")
	if err != nil {
		fmt.Fprintln(os.Stderr, err)
		os.Exit(2)
	}
	defer os.RemoveAll(tmp)
	var wg sync.WaitGroup
	type res struct {
		st  *WorkerStats
		err error
		log string
	}
	results := make([]res, *fWorkers)
	for i := 0; i < *fWorkers; i++ {
		wg.Add(1)
		go func(i int) {
			defer wg.Done()
			out := filepath.Join(tmp, fmt.Sprintf("w%d.json", i))
			cmd := exec.Command(self, "-test.run", "^TestSim$", "-test.timeout", "0", "-mode", "worker", "-prop", s.Prop,
				"-seed", fmt.Sprint(*fSeed*64+uint64(i)), "-budget", fBudget.String(), "-out", out, "-tier", *fTier, "-verifdir", *fVerifDir)
			cmd.Env = append(os.Environ(), "GOMAXPROCS=2")
			b, err := cmd.CombinedOutput()
			results[i].log = string(b)
			results[i].err = err
			if data, rerr := os.ReadFile(out); rerr == nil {
				var st WorkerStats
				if json.Unmarshal(data, &st) == nil {
					results[i].st = &st
				}
			}
		}(i)
	}
	wg.Wait()

	agg := &WorkerStats{Prop: s.Prop, Seed: *fSeed, Probes: map[string]uint64{}, Known: map[string]uint64{}}
	digests := map[uint64]bool{}
	trouble := false
	type abortedCase struct{ path, log string }
	var aborted []abortedCase
	for i, r := range results {
		if r.st == nil {
			cur := filepath.Join(tmp, fmt.Sprintf("w%d.json.cur", i))
			if _, err := os.Stat(cur); err == nil && !strings.Contains(r.log, "WATCHDOG") {
				// the process died inside a run (panic / log.Fatal in badger): keep the case
				b, _ := os.ReadFile(cur)
				h := sha256.Sum256(b)
				dir := filepath.Join(*fVerifDir, "replays")
				os.MkdirAll(dir, 0o755)
				path := filepath.Join(dir, fmt.Sprintf("%s-abort-%s.json", s.Prop, hex.EncodeToString(h[:4])))
				os.WriteFile(path, b, 0o644)
				aborted = append(aborted, abortedCase{path: path, log: tail(r.log, 3000)})
				continue
			}
			if b, err := os.ReadFile(cur); err == nil && strings.Contains(r.log, "WATCHDOG") {
				// A run did not finish within 120 s of real time. Re-execute that case in a fresh
				// process: if it completes, the stall was not a property of the case (the
				// schedule is identical) but of the machine; the worker's other runs are lost
				// from the statistics, nothing else. If it stalls again it is reported.
				kp := filepath.Join(*fVerifDir, "bin", fmt.Sprintf("stuck-%s-w%d.json", s.Prop, i))
				_ = os.WriteFile(kp, b, 0o644)
				_ = os.WriteFile(kp+".log", []byte(r.log), 0o644)
				cmd := exec.Command(self, "-test.run", "^TestSim$", "-test.timeout", "0", "-mode", "replay", "-replay", kp, "-prop", s.Prop, "-verifdir", *fVerifDir)
				ob, _ := cmd.CombinedOutput()
				if strings.Contains(string(ob), "REPLAY-OK") {
					fmt.Fprintf(os.Stderr, "note: worker %d stalled in one run (watchdog); the same case completed on re-execution in a fresh process (case and log kept in %s); that worker's statistics are not counted\n", i, kp)
					agg.Probes["worker_stalled_once_case_completed_on_reexecution"]++
					continue
				}
			}
			fmt.Fprintf(os.Stderr, "worker %d produced no stats (err=%v):\n%s\n", i, r.err, tail(r.log, 4000))
			if b, err := os.ReadFile(cur); err == nil {
				// keep the case the worker was running (watchdog / harness trouble) for investigation
				kp := filepath.Join(*fVerifDir, "bin", fmt.Sprintf("stuck-%s-w%d.json", s.Prop, i))
				_ = os.WriteFile(kp, b, 0o644)
				_ = os.WriteFile(kp+".log", []byte(r.log), 0o644)
				fmt.Fprintf(os.Stderr, "note: the case that worker was running is kept in %s (full log next to it)\n", kp)
			}
			trouble = true
			continue
		}
		agg.Runs += r.st.Runs
		agg.ShrinkRuns += r.st.ShrinkRuns
		agg.Steps += r.st.Steps
		agg.Decisions += r.st.Decisions
		agg.Switches += r.st.Switches
		agg.Checks += r.st.Checks
		agg.Ops += r.st.Ops
		agg.SimNs += r.st.SimNs
		agg.NonTrivial += r.st.NonTrivial
		for k, v := range r.st.Probes {
			agg.Probes[k] += v
		}
		for k, v := range r.st.Known {
			agg.Known[k] += v
		}
		for _, d := range r.st.Digests {
			digests[d] = true
		}
		agg.Violations = append(agg.Violations, r.st.Violations...)
		agg.Harness = append(agg.Harness, r.st.Harness...)
		if len(agg.Samples) < 3 {
			agg.Samples = append(agg.Samples, r.st.Samples...)
		}
		agg.Seeds = append(agg.Seeds, r.st.Seeds...)
	}
	agg.DistinctNT = len(digests)
	if len(agg.Samples) == 0 {
		for _, r := range results {
			if r.st != nil && r.st.Fallback != nil {
				agg.Samples = append(agg.Samples, r.st.Fallback)
				break
			}
		}
	}
	wall := time.Since(start).Seconds()
	for _, r := range results {
		if r.st != nil && r.st.SlowMs > agg.SlowMs {
			agg.SlowMs, agg.SlowCase = r.st.SlowMs, r.st.SlowCase
		}
	}
	if os.Getenv("VERIF_TIMING") != "" {
		for i, r := range results {
			if r.st != nil {
				fmt.Fprintf(os.Stderr, "timing: worker %d wall=%.1fs runs=%d shrink=%d slow=%dms\n", i, r.st.WallS, r.st.Runs, r.st.ShrinkRuns, r.st.SlowMs)
			}
		}
		fmt.Fprintf(os.Stderr, "timing: all workers returned after %.1fs\n", wall)
	}
	if agg.SlowMs > 15000 {
		sp := filepath.Join(*fVerifDir, "bin", "slow-"+s.Prop+".json")
		_ = os.WriteFile(sp, agg.SlowCase, 0o644)
		fmt.Fprintf(os.Stderr, "note: slowest run took %.1fs (case kept in %s)\n", float64(agg.SlowMs)/1000, sp)
	}
	agg.SlowCase = nil

	// classify violations
	known := loadKnown()
	var own, other []FoundViolation
	knownHit := map[string]bool{}
	for _, v := range agg.Violations {
		if v.Other {
			other = append(other, v)
			continue
		}
		matched := false
		for _, k := range known {
			if kk := matchKnown(s.Prop, &v.Viol); kk != nil && kk.What == k.What {
				if !knownHit[k.What] {
					fmt.Printf("KNOWN-FINDING: property=%s %s\n", s.Prop, k.What)
					knownHit[k.What] = true
				}
				matched = true
				break
			}
		}
		if !matched {
			own = append(own, v)
		}
	}
	for what, n := range agg.Known {
		if !knownHit[what] {
			fmt.Printf("KNOWN-FINDING: property=%s %s (hit %d times in this run)\n", s.Prop, what, n)
			knownHit[what] = true
		}
	}
	// known findings that the generators deliberately avoid (e.g. because they
	// abort the process) are probed by replaying their recorded case
	for _, k := range known {
		if k.Kind != "known" || k.Property != s.Prop || k.Probe == "" {
			continue
		}
		cmd := exec.Command(self, "-test.run", "^TestSim$", "-test.timeout", "0", "-mode", "replay", "-replay", filepath.Join(*fVerifDir, k.Probe), "-prop", s.Prop, "-verifdir", *fVerifDir)
		b, err := cmd.CombinedOutput()
		code := 0
		if ee, ok := err.(*exec.ExitError); ok {
			code = ee.ExitCode()
		}
		still := code != 0 && code != 3 && (strings.Contains(string(b), "REPLAY-VIOLATION") || strings.Contains(string(b), strings.TrimSpace(strings.Split(k.Match, "&&")[0])))
		if still && !knownHit[k.What] {
			fmt.Printf("KNOWN-FINDING: property=%s %s (probe %s still triggers it)\n", s.Prop, k.What, k.Probe)
			knownHit[k.What] = true
		}
	}
	// confirm each own violation by replaying it in a fresh process
	exit := 0
	nviol := 0
	for _, v := range own {
		var b []byte
		code := 0
		sameRule := false
		for attempt := 0; attempt < 3; attempt++ {
			cmd := exec.Command(self, "-test.run", "^TestSim$", "-test.timeout", "0", "-mode", "replay", "-replay", v.Replay, "-prop", s.Prop, "-verifdir", *fVerifDir)
			var err error
			b, err = cmd.CombinedOutput()
			code = 0
			if ee, ok := err.(*exec.ExitError); ok {
				code = ee.ExitCode()
			}
			if code == 1 {
				break
			}
			// exit 3 = the violation came back with another interleaving digest (goroutines
			// that wake each other through channels run in parallel for a moment); the same
			// rule firing again is still a reproduction of the violation, but try for the
			// exact one first
			if code == 3 && strings.Contains(string(b), "REPLAY-VIOLATION property="+s.Prop+" rule="+v.Viol.Rule+" ") {
				sameRule = true
				continue
			}
			break
		}
		if (code == 1 || sameRule) && strings.Contains(string(b), "REPLAY-VIOLATION") {
			fmt.Printf("VIOLATION property=%s replay=%s\n", s.Prop, v.Replay)
			fmt.Printf("  rule=%s: %s\n", v.Viol.Rule, firstLine(v.Viol.Msg))
			if code != 1 {
				fmt.Printf("  (replayed with the same rule but a different interleaving digest)\n")
			}
			nviol++
			exit = 1
		} else {
			fmt.Fprintf(os.Stderr, "violation did not replay in a fresh process (exit %d): %s\n%s\n", code, v.Viol.String(), tail(string(b), 2000))
			trouble = true
		}
	}
	// cases in which the worker process died: confirm by replaying in a fresh process
	for _, a := range aborted {
		cmd := exec.Command(self, "-test.run", "^TestSim$", "-test.timeout", "0", "-mode", "replay", "-replay", a.path, "-prop", s.Prop, "-verifdir", *fVerifDir)
		b, err := cmd.CombinedOutput()
		code := 0
		if ee, ok := err.(*exec.ExitError); ok {
			code = ee.ExitCode()
		}
		out := string(b)
		died := code != 0 && code != 1 && code != 3 || strings.Contains(out, "Assert failed") || strings.Contains(out, "\npanic:") || strings.HasPrefix(out, "panic:")
		if died && !strings.Contains(out, "WATCHDOG") {
			// a process abort is reported only if the case aborts again in a second fresh
			// process: aborts that come and go are races inside goroutines the simulator does
			// not schedule (value prefetch vs Close), which a replay file cannot pin down
			cmd2 := exec.Command(self, "-test.run", "^TestSim$", "-test.timeout", "0", "-mode", "replay", "-replay", a.path, "-prop", s.Prop, "-verifdir", *fVerifDir)
			b2, _ := cmd2.CombinedOutput()
			if strings.Contains(string(b2), "REPLAY-OK") {
				died = false
				out = string(b2)
			}
		} else if !died && !strings.Contains(out, "WATCHDOG") {
			// try once more before concluding that the death does not belong to the case
			cmd2 := exec.Command(self, "-test.run", "^TestSim$", "-test.timeout", "0", "-mode", "replay", "-replay", a.path, "-prop", s.Prop, "-verifdir", *fVerifDir)
			b2, err2 := cmd2.CombinedOutput()
			code2 := 0
			if ee, ok := err2.(*exec.ExitError); ok {
				code2 = ee.ExitCode()
			}
			out2 := string(b2)
			if code2 != 0 && code2 != 1 && code2 != 3 || strings.Contains(out2, "Assert failed") || strings.Contains(out2, "\npanic:") || strings.HasPrefix(out2, "panic:") {
				out, code, died = out2, code2, true
			}
		}
		if !died && !strings.Contains(out, "WATCHDOG") && strings.Contains(out, "REPLAY-OK") {
			// The process died inside a goroutine the simulator does not schedule (e.g. a value
			// prefetch racing with Close) and the identical case runs clean twice in fresh
			// processes: not reproducible, hence not reportable as a violation of this
			// property; the worker's statistics are lost, the case and its log are kept.
			kp := filepath.Join(*fVerifDir, "bin", "died-once-"+filepath.Base(a.path))
			_ = os.Rename(a.path, kp)
			_ = os.WriteFile(kp+".log", []byte(a.log), 0o644)
			fmt.Fprintf(os.Stderr, "note: a worker process died once (%s) and its last case ran clean on re-execution; kept in %s\n", firstPanicLine(a.log), kp)
			agg.Probes["worker_died_once_case_clean_on_reexecution"]++
			continue
		}
		if !died || strings.Contains(out, "WATCHDOG") {
			fmt.Fprintf(os.Stderr, "a worker process died but its last case does not abort on replay (exit %d):\n%s\n", code, tail(a.log, 1500))
			trouble = true
			continue
		}
		msg := firstLine(out)
		for _, l := range strings.Split(out, "\n") {
			if strings.HasPrefix(l, "panic:") || strings.Contains(l, "Assert failed") || strings.HasPrefix(l, "fatal error:") {
				msg = l
				break
			}
		}
		v := Violation{Props: []string{s.Prop}, Rule: "process-abort", Msg: "badger aborted the process: " + msg}
		if k := matchKnown(s.Prop, &v); k != nil {
			if !knownHit[k.What] {
				fmt.Printf("KNOWN-FINDING: property=%s %s\n", s.Prop, k.What)
				knownHit[k.What] = true
			}
			continue
		}
		fmt.Printf("VIOLATION property=%s replay=%s\n", s.Prop, a.path)
		fmt.Printf("  rule=process-abort: %s\n", msg)
		nviol++
		exit = 1
	}
	for _, v := range other {
		fmt.Printf("NOTE: a rule of another property fired during this check: %s\n", firstLine(v.Viol.String()))
	}
	if len(agg.Harness) > 0 {
		for _, h := range agg.Harness {
			fmt.Fprintf(os.Stderr, "HARNESS: %s\n", firstLine(h))
		}
		trouble = true
	}
	writeEvidence(s, agg, wall, nviol)
	fmt.Printf("%s %s: runs=%d nontrivial=%d distinct_interleavings=%d steps=%d checks=%d sim_time=%.0fs wall=%.1fs violations=%d\n",
		s.Prop, *fTier, agg.Runs, agg.NonTrivial, agg.DistinctNT, agg.Steps, agg.Checks, time.Duration(agg.SimNs).Seconds(), wall, nviol)
	if exit == 0 && trouble {
		os.Exit(2)
	}
	os.Exit(exit)
}

func firstPanicLine(log string) string {
	for _, l := range strings.Split(log, "\n") {
		if strings.HasPrefix(l, "panic:") || strings.HasPrefix(l, "fatal error:") || strings.Contains(l, "Assert failed") {
			return l
		}
	}
	return "no panic line in the kept log tail"
}

func firstLine(s string) string {
	if i := strings.IndexByte(s, '\n'); i >= 0 {
		return s[:i]
	}
	return s
}

func tail(s string, n int) string {
	if len(s) > n {
		return s[len(s)-n:]
	}
	return s
}

func writeEvidence(s *Scenario, agg *WorkerStats, wall float64, nviol int) {
	type coverage struct {
		Evaluations        int               `json:"evaluations"`
		DistinctNontrivial int               `json:"distinct_nontrivial"`
		Rule               string            `json:"rule"`
		Samples            []json.RawMessage `json:"samples"`
		Runs               int               `json:"simulated_runs"`
		RunsPerHour        float64           `json:"simulated_runs_per_hour"`
		SeedsPerHour       float64           `json:"seeds_per_hour"`
		RapidSeeds         int               `json:"rapid_seeds"`
		ShrinkRuns         int               `json:"shrink_runs"`
		SchedulerSteps     uint64            `json:"scheduler_steps"`
		Decisions          uint64            `json:"schedule_decisions"`
		ContextSwitches    uint64            `json:"context_switches"`
		OracleChecks       uint64            `json:"oracle_checks"`
		ClientOps          int               `json:"client_ops"`
		SimSeconds         float64           `json:"simulated_seconds"`
		NonTrivialRuns     int               `json:"nontrivial_runs"`
		Probes             map[string]uint64 `json:"probes"`
		FaultsInjected     map[string]uint64 `json:"faults_injected"`
		ProbesAtZero       []string          `json:"probes_at_zero,omitempty"`
		RealComponents     []string          `json:"real_components"`
		Stubs              []string          `json:"stubbed_components"`
		Workers            int               `json:"worker_processes"`
	}
	faults := map[string]uint64{}
	for k, v := range agg.Probes {
		if strings.HasPrefix(k, "fault:") {
			faults[strings.TrimPrefix(k, "fault:")] = v
		}
	}
	cov := coverage{
		Evaluations: agg.Runs, DistinctNontrivial: agg.DistinctNT, Rule: s.Rule, Samples: agg.Samples,
		Runs: agg.Runs, RunsPerHour: float64(agg.Runs) / wall * 3600, RapidSeeds: len(agg.Seeds),
		SeedsPerHour: float64(len(agg.Seeds)) / wall * 3600, ShrinkRuns: agg.ShrinkRuns,
		SchedulerSteps: agg.Steps, Decisions: agg.Decisions, ContextSwitches: agg.Switches, OracleChecks: agg.Checks,
		ClientOps: agg.Ops, SimSeconds: time.Duration(agg.SimNs).Seconds(), NonTrivialRuns: agg.NonTrivial,
		Probes: agg.Probes, FaultsInjected: faults, RealComponents: realAll, Stubs: stubsCommon, Workers: *fWorkers,
	}
	if len(s.Real) > 0 {
		cov.RealComponents = s.Real
	}
	if len(s.Stubs) > 0 {
		cov.Stubs = s.Stubs
	}
	if cov.Samples == nil {
		cov.Samples = []json.RawMessage{}
	}
	var zero []string
	for _, want := range expectedProbes[s.Prop] {
		if agg.Probes[want] == 0 {
			zero = append(zero, want)
		}
	}
	sort.Strings(zero)
	cov.ProbesAtZero = zero
	ev := map[string]interface{}{
		"property_id": s.Prop,
		"tier":        *fTier,
		"seed":        int64(*fSeed),
		"level":       s.Level,
		"coverage":    cov,
		"assumptions": append([]string{
			"interleavings are explored at the granularity of the vhook schedule points; races inside one step are not",
			"sampling, not proof: a clean batch is evidence only for the cases explored",
		}, s.Assume...),
		"wall_s":     wall,
		"violations": nviol,
	}
	b, _ := json.MarshalIndent(ev, "", " ")
	dir := filepath.Join(*fVerifDir, "evidence")
	os.MkdirAll(dir, 0o755)
	if err := os.WriteFile(filepath.Join(dir, s.Prop+".json"), b, 0o644); err != nil {
		fmt.Fprintln(os.Stderr, "write evidence:", err)
		os.Exit(2)
	}
}

// expectedProbes lists, per property, the rare conditions that should not stay at zero.
var expectedProbes = map[string][]string{
	"C01": {"begin_while_commit_in_flight", "memtable_rotated", "memtable_flushed"},
	"C03": {"begin_while_commit_in_flight", "memtable_rotated", "choose:doWrites.select"},
	"C04": {},
	"C05": {"compaction_done", "memtable_flushed"},
	"C08": {"memtable_rotated", "crash_in_close", "recovered_unacked_commit"},
	"C09": {"torn_wal_cut", "torn_vlog_cut", "torn_manifest_cut"},
	"C10": {"fault:power_image_verified", "memtable_rotated"},
	"C12": {"compact_L0_to_Lbase", "compact_L0_to_L0", "compact_Ln_to_Ln1", "compact_Lmax_to_Lmax", "compact_split_subcompactions", "l0_stall_poll"},
	"C13": {"compaction_done"},
	"C33": {"expiry_crossed", "compaction_done"},
	"C34": {"begin_while_commit_in_flight", "watermark_advanced"},
}

// ---------- determinism self-test ----------

func runDeterminism(t *testing.T) {
	// Generates N cases from the seed and prints "<index> <digest> <steps> <viol>" for each;
	// the selftest script runs this in several processes / GOMAXPROCS and diffs the output.
	warmup()
	TraceWanted = *fDump >= 0
	s := scenarioFor(t, *fProp)
	flag.Set("rapid.nofailfile", "true")
	flag.Set("rapid.seed", fmt.Sprint(*fSeed))
	n := *fMaxRuns
	if n == 0 {
		n = 20
	}
	flag.Set("rapid.checks", fmt.Sprint(n))
	i := 0
	qtb := &quietTB{name: "det"}
	rapid.Check(qtb, func(rt *rapid.T) {
		c := s.Gen(rt)
		c.Prop = s.Prop
		out := execCase(t, s, c, i == *fDump)
		if i == *fDump {
			fmt.Printf("CASE %s\n", c.JSON())
			for _, l := range out.Trace {
				fmt.Println("TRACE", l)
			}
			for _, l := range out.Hist {
				fmt.Println("HIST", l)
			}
		}
		v := "-"
		if out.Viol != nil {
			v = out.Viol.Rule
		}
		if out.Harness != "" {
			v = "HARNESS:" + out.Harness
		}
		fmt.Printf("DET %d %016x %d %s\n", i, out.Stats.Digest, out.Stats.Steps, v)
		i++
	})
}
