package sim

import (
	"fmt"
	"os"
	"path/filepath"
	"sort"
	"strings"
	"sync"
	"testing"
	"testing/synctest"

	badger "github.com/dgraph-io/badger/v4"
	"github.com/dgraph-io/badger/v4/options"
	"github.com/dgraph-io/badger/v4/pb"
	"pgregory.net/rapid"
)

// ---- C17: MANIFEST replay reconstructs the table map exactly ----

type mfTable struct {
	Level uint8
	KeyID uint64
	Comp  options.CompressionType
}

func genManifestCase(t *rapid.T) *Case {
	c := &Case{Scenario: "L-C17"}
	nc := rapid.IntRange(1, 3).Draw(t, "writers")
	nextID := 1
	var live []int
	for ci := 0; ci < nc; ci++ {
		n := rapid.IntRange(1, 10).Draw(t, "nsets")
		var ops []Op
		for i := 0; i < n; i++ {
			m := rapid.IntRange(1, 4).Draw(t, "nchanges")
			var sub []Op
			for j := 0; j < m; j++ {
				k := rapid.IntRange(0, 9).Draw(t, "chg")
				switch {
				case k < 5 || len(live) == 0:
					sub = append(sub, Op{K: "create", Key: nextID, N: rapid.IntRange(0, 6).Draw(t, "level"), Ts: uint64(rapid.IntRange(0, 3).Draw(t, "keyid")), S: rapid.IntRange(0, 2).Draw(t, "comp")})
					live = append(live, nextID)
					nextID++
				case k < 9:
					idx := rapid.IntRange(0, len(live)-1).Draw(t, "del_idx")
					sub = append(sub, Op{K: "delete", Key: live[idx]})
					live = append(live[:idx], live[idx+1:]...)
				default:
					sub = append(sub, Op{K: "delete", Key: 100000 + nextID}) // unknown table
				}
			}
			ops = append(ops, Op{K: "changeset", Sub: sub})
		}
		c.Clients = append(c.Clients, ops)
	}
	c.Cfg.L0Tables = rapid.SampledFrom([]int{0, 1, 3, 10, 1000}).Draw(t, "rewrite_threshold")
	c.Sched = genSched(t, 60)
	c.Cfg.Groups = []string{"client"}
	return c
}

func sameTables(a map[uint64]badger.TableManifest, m map[uint64]mfTable) string {
	var ids []uint64
	for id := range a {
		ids = append(ids, id)
	}
	for id := range m {
		if _, ok := a[id]; !ok {
			ids = append(ids, id)
		}
	}
	sort.Slice(ids, func(i, j int) bool { return ids[i] < ids[j] })
	for _, id := range ids {
		x, okx := a[id]
		y, oky := m[id]
		switch {
		case !okx:
			return fmt.Sprintf("table %d (L%d) is missing from the replayed MANIFEST", id, y.Level)
		case !oky:
			return fmt.Sprintf("replayed MANIFEST contains table %d (L%d) which should not exist", id, x.Level)
		case x.Level != y.Level || x.KeyID != y.KeyID || x.Compression != y.Comp:
			return fmt.Sprintf("table %d: replayed {L%d key %d comp %d}, expected {L%d key %d comp %d}", id, x.Level, x.KeyID, x.Compression, y.Level, y.KeyID, y.Comp)
		}
	}
	return ""
}

func cloneTables(m map[uint64]mfTable) map[uint64]mfTable {
	o := make(map[uint64]mfTable, len(m))
	for k, v := range m {
		o[k] = v
	}
	return o
}

func replayFile(path string, opt badger.Options) (badger.Manifest, int64, error) {
	fp, err := os.Open(path)
	if err != nil {
		return badger.Manifest{}, 0, err
	}
	defer fp.Close()
	return badger.ReplayManifestFile(fp, 0, opt)
}

// ExecuteManifest runs one MANIFEST case.
func ExecuteManifest(t *testing.T, c *Case, keep bool) (out Outcome) {
	out.Stats.Probes = map[string]uint64{}
	out.Stats.Known = map[string]uint64{}
	dir, err := os.MkdirTemp(shmDir(), "vmf-")
	if err != nil {
		out.Harness = err.Error()
		return
	}
	defer os.RemoveAll(dir)
	var viol *Violation
	func() {
		defer func() {
			if p := recover(); p != nil {
				out.Harness = fmt.Sprintf("panic around bubble: %v", p)
			}
		}()
		synctest.Test(t, func(t *testing.T) {
			viol = runManifest(c, dir, keep, &out)
		})
	}()
	Uninstall()
	out.Viol = viol
	return
}

func runManifest(c *Case, dir string, keep bool, out *Outcome) *Violation {
	e := NewEngine(c.Sched, c.Cfg.Groups)
	renames := 0
	e.OnIO = func(gid int64, kind, path string, off, n int64) {
		if kind == "rename" {
			renames++ // a MANIFEST rewrite (written aside, fsynced, renamed over the old file)
		}
	}
	e.Install()
	opt := badger.DefaultOptions(dir)
	opt.Logger = nil
	mf, _, err := badger.VerifOpenManifest(dir, c.Cfg.L0Tables, opt)
	if err != nil {
		out.Harness = "open manifest: " + err.Error()
		return nil
	}
	path := filepath.Join(dir, "MANIFEST")
	var mu sync.Mutex
	model := map[uint64]mfTable{}
	type applied struct {
		state map[uint64]mfTable
		size  int64 // file size after this set (0 when a rewrite happened in it)
	}
	var hist []applied
	hist = append(hist, applied{state: cloneTables(model), size: fileSize(path)})
	rewrites := 0
	var viol *Violation
	nDone := 0
	e.Activate()
	for ci, script := range c.Clients {
		ci, script := ci, script
		go func() {
			e.Register(fmt.Sprintf("c%d", ci))
			defer func() {
				mu.Lock()
				nDone++
				mu.Unlock()
			}()
			for _, op := range script {
				e.Point("client.op")
				var chs []*pb.ManifestChange
				for _, so := range op.Sub {
					if so.K == "create" {
						chs = append(chs, &pb.ManifestChange{Id: uint64(so.Key), Op: pb.ManifestChange_CREATE, Level: uint32(so.N), KeyId: so.Ts, EncryptionAlgo: pb.EncryptionAlgo_aes, Compression: uint32(so.S)})
					} else {
						chs = append(chs, &pb.ManifestChange{Id: uint64(so.Key), Op: pb.ManifestChange_DELETE})
					}
				}
				renamesBefore := renames
				err := mf.AddChanges(chs, opt)
				mu.Lock()
				if err != nil {
					if viol == nil {
						viol = &Violation{Props: []string{"C17"}, Rule: "addchanges-error", Msg: fmt.Sprintf("addChanges failed: %v", err)}
					}
					mu.Unlock()
					return
				}
				for _, so := range op.Sub {
					if so.K == "create" {
						model[uint64(so.Key)] = mfTable{Level: uint8(so.N), KeyID: so.Ts, Comp: options.CompressionType(so.S)}
					} else {
						delete(model, uint64(so.Key))
					}
				}
				after := fileSize(path)
				if renames != renamesBefore {
					rewrites++
					hist = []applied{{state: cloneTables(model), size: after}} // everything before is folded into the rewrite
				} else {
					hist = append(hist, applied{state: cloneTables(model), size: after})
				}
				mu.Unlock()
			}
		}()
	}
	res := e.Run(func() bool {
		mu.Lock()
		defer mu.Unlock()
		return nDone == len(c.Clients)
	}, 100000)
	e.Stop()
	out.Stats.Steps = e.Steps
	out.Stats.Decisions = e.Decisions
	out.Stats.Switches = e.Switches
	out.Stats.Digest = e.TraceDigest()
	if res.Deadlock || res.StepBudget {
		return &Violation{Props: []string{"C17", "C38"}, Rule: "manifest-stuck", Msg: res.Dump}
	}
	if viol != nil {
		mf.Close()
		return viol
	}
	// (1) the in-memory view and a replay of the file equal the model
	if d := sameTables(mf.Tables(), model); d != "" {
		mf.Close()
		return &Violation{Props: []string{"C17"}, Rule: "in-memory-manifest", Msg: d}
	}
	mf.Close()
	got, off, err := replayFile(path, opt)
	if err != nil {
		return &Violation{Props: []string{"C17"}, Rule: "replay-error", Msg: fmt.Sprintf("replaying an intact MANIFEST failed: %v", err)}
	}
	if d := sameTables(got.Tables, model); d != "" {
		return &Violation{Props: []string{"C17"}, Rule: "replay-differs", Msg: d}
	}
	full, _ := os.ReadFile(path)
	if off != int64(len(full)) {
		return &Violation{Props: []string{"C17"}, Rule: "replay-offset", Msg: fmt.Sprintf("replay of an intact MANIFEST reports end offset %d, file has %d bytes", off, len(full))}
	}
	out.Stats.Checks++
	out.Stats.Probes["manifest_rewrites"] += uint64(rewrites)
	if len(hist) < 2 {
		return nil
	}
	out.Stats.NonTrivial = true
	// (2) cut at every byte of the last change sets: the result is the state after
	// the last set wholly before the cut, never a partial set
	tmp := filepath.Join(dir, "MANIFEST.cut")
	first := len(hist) - 4
	if first < 1 {
		first = 1
	}
	start := hist[first-1].size
	stateAt := func(k int64) map[uint64]mfTable {
		st := hist[0].state
		for _, h := range hist {
			if h.size <= k {
				st = h.state
			}
		}
		return st
	}
	for k := start; k < int64(len(full)); k++ {
		if err := os.WriteFile(tmp, full[:k], 0o644); err != nil {
			out.Harness = err.Error()
			return nil
		}
		m, _, err := replayFile(tmp, opt)
		out.Stats.Probes["fault:manifest_truncated_at_byte"]++
		if err != nil {
			return &Violation{Props: []string{"C17", "C09"}, Rule: "truncated-manifest-error", Msg: fmt.Sprintf("MANIFEST truncated at byte %d of %d: replay failed: %v", k, len(full), err)}
		}
		if d := sameTables(m.Tables, stateAt(k)); d != "" {
			return &Violation{Props: []string{"C17"}, Rule: "truncated-manifest-partial", Msg: fmt.Sprintf("MANIFEST truncated at byte %d of %d: %s", k, len(full), d)}
		}
		out.Stats.Checks++
		// the truncated MANIFEST is taken into use again (production open, which cuts
		// the torn tail off), one more change set is appended, and the file is
		// replayed by the next open: state after the cut plus the new table
		if k%2 == 0 {
			d2 := filepath.Join(dir, "cutuse")
			os.RemoveAll(d2)
			os.MkdirAll(d2, 0o755)
			if err := os.WriteFile(filepath.Join(d2, "MANIFEST"), full[:k], 0o644); err != nil {
				out.Harness = err.Error()
				return nil
			}
			mf, _, err := badger.VerifOpenManifest(d2, 1<<30, opt)
			if err != nil {
				return &Violation{Props: []string{"C17", "C09"}, Rule: "truncated-manifest-error", Msg: fmt.Sprintf("MANIFEST truncated at byte %d of %d: open failed: %v", k, len(full), err)}
			}
			const probeID = 987654321
			err = mf.AddChanges([]*pb.ManifestChange{{Id: probeID, Op: pb.ManifestChange_CREATE, Level: 1}}, opt)
			cerr := mf.Close()
			if err != nil || cerr != nil {
				return &Violation{Props: []string{"C17"}, Rule: "append-after-truncation-error", Msg: fmt.Sprintf("MANIFEST truncated at byte %d: appending a change set after the recovering open failed: %v / close: %v", k, err, cerr)}
			}
			mf2, m2, err := badger.VerifOpenManifest(d2, 1<<30, opt)
			if err != nil {
				return &Violation{Props: []string{"C17", "C09"}, Rule: "reopen-after-truncation-error", Msg: fmt.Sprintf("MANIFEST truncated at byte %d of %d, opened, one change set appended, closed: the next open failed: %v", k, len(full), err)}
			}
			mf2.Close()
			want := map[uint64]mfTable{}
			for id, tm := range stateAt(k) {
				want[id] = tm
			}
			want[probeID] = mfTable{Level: 1}
			if d := sameTables(m2.Tables, want); d != "" {
				return &Violation{Props: []string{"C17", "C09"}, Rule: "reopen-after-truncation-differs", Msg: fmt.Sprintf("MANIFEST truncated at byte %d of %d, opened, one change set appended, closed: the next open shows %s", k, len(full), d)}
			}
			out.Stats.Probes["fault:manifest_truncated_then_appended"]++
			out.Stats.Checks++
		}
	}
	// (3) a flipped bit anywhere in the last change sets is an error or leaves a
	// complete-set prefix state, never something else
	valid := func(m map[uint64]badger.TableManifest) bool {
		for _, h := range hist {
			if sameTables(m, h.state) == "" {
				return true
			}
		}
		return false
	}
	for k := start; k < int64(len(full)); k++ {
		buf := append([]byte{}, full...)
		buf[k] ^= 1 << uint(k%8)
		if err := os.WriteFile(tmp, buf, 0o644); err != nil {
			out.Harness = err.Error()
			return nil
		}
		m, _, err := replayFile(tmp, opt)
		out.Stats.Probes["fault:manifest_bit_flipped"]++
		if err != nil {
			continue
		}
		if !valid(m.Tables) {
			var ids []string
			for id, tm := range m.Tables {
				ids = append(ids, fmt.Sprintf("%d:L%d", id, tm.Level))
			}
			sort.Strings(ids)
			return &Violation{Props: []string{"C17"}, Rule: "corrupt-manifest-applied", Msg: fmt.Sprintf("bit %d of byte %d flipped: replay succeeded with a table map that is not the state after any complete change set: %s", k%8, k, strings.Join(ids, " "))}
		}
		out.Stats.Checks++
	}
	return nil
}

func fileSize(path string) int64 {
	fi, err := os.Stat(path)
	if err != nil {
		return 0
	}
	return fi.Size()
}
