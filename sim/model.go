package sim

import (
	"bytes"
	"fmt"
	"sort"
)

// Version is one committed (or in-flight) write of a key in the reference model.
type Version struct {
	Ts     uint64
	Val    []byte
	UM     byte
	Exp    uint64 // unix seconds, 0 = never
	Del    bool
	Disc   bool // discard-earlier-versions flag
	Merge  bool
	Commit int // index into Model.Commits
	// Older holds writes of the same key at the same timestamp that this one
	// replaced (managed mode: several calls may target one key+version).
	Older []Version
}

// CommitRec is one commit attempt whose timestamp was allocated.
type CommitRec struct {
	ID      int
	Client  int
	OpIdx   int
	Ts      uint64
	ReadTs  uint64
	Writes  []WriteRec
	Failed  bool
	Acked   bool // Commit returned nil / callback got nil
	AckStep uint64
	TsStep  uint64
}

type WriteRec struct {
	Key   string
	Val   []byte
	UM    byte
	Exp   uint64
	Del   bool
	Disc  bool
	Merge bool
	Ver   uint64 // managed per-entry version; 0 = commit ts
}

// Model is the MVCC reference: it never forgets a version.
type Model struct {
	Keys    map[string][]Version // ascending Ts
	Commits []*CommitRec
	Dropped []droppedVersion // removed by DropPrefix/DropAll
}

type droppedVersion struct {
	Key string
	V   Version
}

func NewModel() *Model { return &Model{Keys: map[string][]Version{}} }

// AddCommit installs a commit (ts allocated) into the model.
func (m *Model) AddCommit(c *CommitRec) {
	c.ID = len(m.Commits)
	m.Commits = append(m.Commits, c)
	for _, w := range c.Writes {
		ts := c.Ts
		if w.Ver != 0 {
			ts = w.Ver
		}
		v := Version{Ts: ts, Val: w.Val, UM: w.UM, Exp: w.Exp, Del: w.Del, Disc: w.Disc, Commit: c.ID}
		vs := m.Keys[w.Key]
		i := sort.Search(len(vs), func(i int) bool { return vs[i].Ts >= ts })
		if i < len(vs) && vs[i].Ts == ts {
			vs[i] = v // same key & version: later write wins
		} else {
			vs = append(vs, Version{})
			copy(vs[i+1:], vs[i:])
			vs[i] = v
		}
		m.Keys[w.Key] = vs
	}
}

// AddWrite adds one more write to an already installed commit.
func (m *Model) AddWrite(c *CommitRec, w WriteRec) {
	c.Writes = append(c.Writes, w)
	ts := c.Ts
	if w.Ver != 0 {
		ts = w.Ver
	}
	v := Version{Ts: ts, Val: w.Val, UM: w.UM, Exp: w.Exp, Del: w.Del, Disc: w.Disc, Merge: w.Merge, Commit: c.ID}
	vs := m.Keys[w.Key]
	i := sort.Search(len(vs), func(i int) bool { return vs[i].Ts >= ts })
	if i < len(vs) && vs[i].Ts == ts {
		old := vs[i]
		v.Older = append(append([]Version{}, old.Older...), old)
		v.Older[len(v.Older)-1].Older = nil
		vs[i] = v
	} else {
		vs = append(vs, Version{})
		copy(vs[i+1:], vs[i:])
		vs[i] = v
	}
	m.Keys[w.Key] = vs
}

// FailCommit removes a commit whose application failed after ts allocation.
func (m *Model) FailCommit(ts uint64) {
	for _, c := range m.Commits {
		if c.Ts == ts && !c.Failed {
			c.Failed = true
		}
	}
}

func (m *Model) live(v *Version) bool { return !m.Commits[v.Commit].Failed }

// Newest returns the newest non-failed version with Ts <= ts (nil if none),
// regardless of delete/expiry.
func (m *Model) Newest(key string, ts uint64) *Version {
	vs := m.Keys[key]
	for i := len(vs) - 1; i >= 0; i-- {
		if vs[i].Ts <= ts && m.live(&vs[i]) {
			return &vs[i]
		}
	}
	return nil
}

func expired(exp, now uint64) bool { return exp != 0 && exp <= now }

// Read returns the visible version at ts and time now (nil = absent).
func (m *Model) Read(key string, ts, now uint64) *Version {
	v := m.Newest(key, ts)
	if v == nil || v.Del || expired(v.Exp, now) {
		return nil
	}
	return v
}

// VisibleKeys returns the sorted keys visible at (ts, now).
func (m *Model) VisibleKeys(ts, now uint64) []string {
	var out []string
	for k := range m.Keys {
		if m.Read(k, ts, now) != nil {
			out = append(out, k)
		}
	}
	sort.Strings(out)
	return out
}

// AllKeys returns every key ever written, sorted.
func (m *Model) AllKeys() []string {
	out := make([]string, 0, len(m.Keys))
	for k := range m.Keys {
		out = append(out, k)
	}
	sort.Strings(out)
	return out
}

// VersionsAtOrBelow returns non-failed versions of key with Ts<=ts, newest first.
func (m *Model) VersionsAtOrBelow(key string, ts uint64) []*Version {
	vs := m.Keys[key]
	var out []*Version
	for i := len(vs) - 1; i >= 0; i-- {
		if vs[i].Ts <= ts && m.live(&vs[i]) {
			out = append(out, &vs[i])
		}
	}
	return out
}

// FindByValue attributes a value to the version that wrote it (values are unique).
func (m *Model) FindByValue(key string, val []byte) *Version {
	vs := m.Keys[key]
	for i := range vs {
		if !vs[i].Del && bytes.Equal(vs[i].Val, val) {
			return &vs[i]
		}
	}
	return nil
}

// MaxTs is the highest timestamp of any non-failed version.
func (m *Model) MaxTs() uint64 {
	var mx uint64
	for _, vs := range m.Keys {
		for i := range vs {
			if vs[i].Ts > mx && m.live(&vs[i]) {
				mx = vs[i].Ts
			}
		}
	}
	return mx
}

func (v *Version) String() string {
	if v == nil {
		return "<absent>"
	}
	if v.Del {
		return fmt.Sprintf("{ts=%d DEL}", v.Ts)
	}
	return fmt.Sprintf("{ts=%d val=%s um=%d exp=%d}", v.Ts, short(v.Val), v.UM, v.Exp)
}

func short(b []byte) string {
	if len(b) > 24 {
		return fmt.Sprintf("%q..(%d)", b[:24], len(b))
	}
	return fmt.Sprintf("%q", b)
}
