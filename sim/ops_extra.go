package sim

import (
	"bytes"
	"context"
	"errors"
	"fmt"
	"os"
	"sort"
	"strings"
	"time"

	badger "github.com/dgraph-io/badger/v4"
	"github.com/dgraph-io/badger/v4/pb"
)

// per-client state of the extra op kinds
type extraState struct {
	// subscriber
	subCancel context.CancelFunc
	subDone   bool
	subErr    error
	subRecv   []*pb.KV
	subMatch  []subPattern
	subRegTs  uint64 // highest commit ts allocated when the subscription was registered
	subID     int
	// sequences
	seqs [2]*seqState
	// merge operators
	merges [2]*mergeState
}

type subPattern struct {
	Prefix []byte
	Ignore string
}

type seqState struct {
	seq  *badger.Sequence
	key  string
	last int64
}

type mergeState struct {
	op  *badger.MergeOperator
	key string
}

func (r *Run) ex(cl *clientState) *extraState {
	if cl.extra == nil {
		cl.extra = &extraState{}
	}
	return cl.extra
}

func init() {
	extraOps["batch"] = opBatch
	extraOps["subscribe"] = opSubscribe
	extraOps["unsubscribe"] = opUnsubscribe
	extraOps["seq_get"] = opSeqGet
	extraOps["seq_next"] = opSeqNext
	extraOps["seq_release"] = opSeqRelease
	extraOps["merge_start"] = opMergeStart
	extraOps["merge_add"] = opMergeAdd
	extraOps["merge_get"] = opMergeGet
	extraOps["merge_stop"] = opMergeStop
}

// ---------- WriteBatch (C27) ----------

func opBatch(r *Run, cl *clientState, idx int, op *Op) {
	if r.c.Cfg.Managed {
		return
	}
	wb := r.db.NewWriteBatch()
	pc := &pendingCommit{opIdx: idx, batch: true}
	cl.cur = pc
	type last struct {
		w   WriteRec
		sub int
	}
	lastOp := map[string]last{}
	var order []string
	for si, so := range op.Sub {
		key := r.key(so.Key)
		var err error
		w := WriteRec{Key: string(key)}
		if so.K == "del" {
			w.Del = true
			err = wb.Delete(key)
		} else {
			w.Val = MakeValue(cl.id, idx, si+1, so.Sz)
			w.UM = so.UM
			e := badger.NewEntry(key, w.Val).WithMeta(so.UM)
			if so.TTL > 0 {
				e = e.WithTTL(time.Duration(so.TTL) * time.Second)
				w.Exp = uint64(time.Now().Add(time.Duration(so.TTL) * time.Second).Unix())
			}
			err = wb.SetEntry(e)
		}
		if err != nil {
			if errors.Is(err, badger.ErrTxnTooBig) {
				// a single entry too large for any transaction: legitimately rejected
				r.probe("batch_entry_too_big")
				continue
			}
			cl.cur = nil
			wb.Cancel()
			if r.blockedByDrop(err) {
				return
			}
			r.violate([]string{"C27"}, "batch-op-error", "c%d WriteBatch op %d on %q failed: %v", cl.id, si, key, err)
			return
		}
		if _, ok := lastOp[w.Key]; !ok {
			order = append(order, w.Key)
		}
		lastOp[w.Key] = last{w: w, sub: si}
	}
	err := wb.Flush()
	cl.cur = nil
	r.logf("c%d batch of %d ops -> err=%v, %d internal commits", cl.id, len(op.Sub), err, len(pc.recs))
	if errors.Is(err, badger.ErrTxnTooBig) {
		// Flush did not return nil, so C27 claims nothing for this batch. (The
		// rejection itself is C28's subject: Commit's size accounting counts the
		// end-of-transaction marker with its decimal timestamp, checkSize does not.)
		r.probe("batch_flush_txn_too_big")
		return
	}
	if r.blockedByDrop(err) {
		return
	}
	if err != nil {
		r.violate([]string{"C27", "C38"}, "batch-flush-error", "c%d WriteBatch.Flush returned %v", cl.id, err)
		return
	}
	if len(pc.recs) > 1 {
		r.probe("batch_split")
	}
	r.stats.Checks++
	// every op must have reached the database, later ops on a key winning
	r.mu.Lock()
	defer r.mu.Unlock()
	for _, k := range order {
		want := lastOp[k].w
		var newest *WriteRec
		var newestTs uint64
		for _, rec := range pc.recs {
			if rec.Failed {
				continue
			}
			for i := range rec.Writes {
				w := &rec.Writes[i]
				if w.Key == k && rec.Ts >= newestTs {
					newest, newestTs = w, rec.Ts
				}
			}
		}
		if newest == nil {
			r.violateLocked([]string{"C27"}, "batch-op-lost", "c%d WriteBatch: no internal transaction carried an entry for key %q (last op %s)", cl.id, k, descW(want))
			return
		}
		if newest.Del != want.Del || (!want.Del && (!bytes.Equal(newest.Val, want.Val) || newest.UM != want.UM || newest.Exp != want.Exp)) {
			r.violateLocked([]string{"C27"}, "batch-later-op-did-not-win", "c%d WriteBatch: for key %q the newest committed entry (ts=%d) is %s but the last op issued was %s", cl.id, k, newestTs, descW(*newest), descW(want))
			return
		}
		// and the database must show it unless somebody else wrote later
		if v := r.model.Newest(k, ^uint64(0)); v != nil && v.Ts == newestTs {
			r.pendingVerify = append(r.pendingVerify, k)
		}
	}
}

// blockedByDrop: writes are legitimately rejected while a drop has them blocked.
func (r *Run) blockedByDrop(err error) bool {
	if err == nil || !strings.Contains(err.Error(), badger.ErrBlockedWrites.Error()) {
		return false
	}
	r.mu.Lock()
	n := len(r.drops)
	r.mu.Unlock()
	if n > 0 {
		r.probe("batch_rejected_by_drop")
	}
	return n > 0
}

// ---------- subscribers (C32) ----------

func matchPattern(p subPattern, key []byte) bool {
	ig := map[int]bool{}
	if p.Ignore != "" {
		var a, b int
		if n, _ := fmt.Sscanf(p.Ignore, "%d-%d", &a, &b); n == 2 {
			for i := a; i <= b; i++ {
				ig[i] = true
			}
		} else if n, _ := fmt.Sscanf(p.Ignore, "%d", &a); n == 1 {
			ig[a] = true
		}
	}
	if len(key) < len(p.Prefix) {
		return false
	}
	for i := range p.Prefix {
		if !ig[i] && key[i] != p.Prefix[i] {
			return false
		}
	}
	return true
}

func matchAny(ps []subPattern, key []byte) bool {
	for _, p := range ps {
		if matchPattern(p, key) {
			return true
		}
	}
	return false
}

func opSubscribe(r *Run, cl *clientState, idx int, op *Op) {
	ex := r.ex(cl)
	if ex.subCancel != nil {
		return
	}
	var pats []subPattern
	var matches []pb.Match
	for _, so := range op.Sub {
		k := r.key(so.Key)
		n := so.N
		if n <= 0 || n > len(k) {
			n = len(k)
		}
		p := subPattern{Prefix: append([]byte{}, k[:n]...)}
		switch so.S {
		case 1:
			p.Ignore = "0"
		case 2:
			if n > 1 {
				p.Ignore = "1"
			}
		case 3:
			if n > 1 {
				p.Ignore = "0-1"
			}
		}
		pats = append(pats, p)
		matches = append(matches, pb.Match{Prefix: p.Prefix, IgnoreBytes: p.Ignore})
	}
	if len(pats) == 0 {
		return
	}
	ctx, cancel := context.WithCancel(context.Background())
	ex.subCancel = cancel
	ex.subMatch = pats
	ex.subDone = false
	ex.subRecv = nil
	ex.subRegTs = 0
	r.subSeq++
	ex.subID = r.subSeq
	name := fmt.Sprintf("sub%d.c%d", ex.subID, cl.id)
	r.mu.Lock()
	cl.cbPending++
	r.mu.Unlock()
	go func() {
		r.e.Register(name)
		r.mu.Lock()
		r.subByGid[goid()] = ex
		r.mu.Unlock()
		err := r.db.Subscribe(ctx, func(kvs *badger.KVList) error {
			r.mu.Lock()
			for _, kv := range kvs.Kv {
				ex.subRecv = append(ex.subRecv, kv)
			}
			r.mu.Unlock()
			return nil
		}, matches)
		r.mu.Lock()
		ex.subDone = true
		ex.subErr = err
		cl.cbPending--
		r.mu.Unlock()
	}()
	// wait until the subscription is registered (the goroutine parks at
	// "subscriber.registered" after the sub.registered event)
	for i := 0; i < 10000; i++ {
		r.e.Point("client.poll") // park first (the new goroutine runs concurrently with this one)
		r.mu.Lock()
		reg := ex.subRegTs != 0
		r.mu.Unlock()
		if reg {
			break
		}
	}
	r.logf("c%d subscribe %v registered at ts>%d", cl.id, pats, ex.subRegTs-1)
	r.probe("subscriptions")
}

func opUnsubscribe(r *Run, cl *clientState, idx int, op *Op) {
	ex := r.ex(cl)
	if ex.subCancel == nil {
		return
	}
	// expected: every matching write of commits allocated after registration and
	// acknowledged before this op began
	r.mu.Lock()
	reg := ex.subRegTs - 1
	ackBound := r.maxAckedTs
	type exp struct {
		key string
		ver uint64
		w   WriteRec
	}
	var want []exp
	for _, c := range r.model.Commits {
		if c.Failed || c.Ts <= reg || c.Ts > ackBound || !c.Acked {
			continue
		}
		for _, w := range c.Writes {
			if matchAny(ex.subMatch, []byte(w.Key)) {
				want = append(want, exp{key: w.Key, ver: c.Ts, w: w})
			}
		}
	}
	r.mu.Unlock()
	sort.SliceStable(want, func(i, j int) bool { return want[i].ver < want[j].ver })
	// give the pipeline a bounded number of scheduling steps to deliver
	for i := 0; i < 3000; i++ {
		r.mu.Lock()
		n := len(ex.subRecv)
		r.mu.Unlock()
		have := map[string]bool{}
		r.mu.Lock()
		for _, kv := range ex.subRecv {
			have[fmt.Sprintf("%s\x00%d", kv.Key, kv.Version)] = true
		}
		r.mu.Unlock()
		missing := false
		for _, w := range want {
			if !have[fmt.Sprintf("%s\x00%d", w.key, w.ver)] {
				missing = true
				break
			}
		}
		_ = n
		if !missing {
			break
		}
		r.e.Point("client.poll")
	}
	// Cancel only while the subscriber sits idle in its select and nothing is on
	// its way to it: with a batch pending AND the context cancelled the runtime
	// would pick one of the two ready select cases at random (not replayable).
	subName := fmt.Sprintf("sub%d.c%d", ex.subID, cl.id)
	for i := 0; i < 3000; i++ {
		if r.e.ParkedAt(subName) == "" && r.e.ParkedAt("publisher") == "" {
			break
		}
		r.e.Point("client.poll")
	}
	ex.subCancel()
	ex.subCancel = nil
	for i := 0; i < 10000; i++ {
		// park first: the cancelled Subscribe goroutine wakes without the scheduler and
		// runs concurrently with this one; only after the next quiescence is "done or
		// not" a deterministic fact
		r.e.Point("client.poll")
		r.mu.Lock()
		d := ex.subDone
		r.mu.Unlock()
		if d {
			break
		}
	}
	r.mu.Lock()
	recv := append([]*pb.KV{}, ex.subRecv...)
	done := ex.subDone
	r.mu.Unlock()
	r.stats.Checks++
	if !done {
		r.violate([]string{"C38", "C32"}, "subscribe-cancel-hang", "c%d Subscribe did not return after its context was cancelled", cl.id)
		return
	}
	r.logf("c%d unsubscribe: %d KVs received, %d required", cl.id, len(recv), len(want))
	if len(want) > 0 {
		r.probe("subscriber_required_kvs")
	}
	// (1) nothing non-matching, every KV is a real write, each at most once, in commit order
	seen := map[string]bool{}
	var lastVer uint64
	r.mu.Lock()
	defer r.mu.Unlock()
	for _, kv := range recv {
		if bytes.HasPrefix(kv.Key, []byte("!badger!")) {
			continue
		}
		if !matchAny(ex.subMatch, kv.Key) {
			r.violateLocked([]string{"C32"}, "subscriber-nonmatching-key", "c%d subscriber with patterns %v received key %q@%d which matches none of them", cl.id, ex.subMatch, kv.Key, kv.Version)
			return
		}
		id := fmt.Sprintf("%s\x00%d", kv.Key, kv.Version)
		if seen[id] {
			r.violateLocked([]string{"C32"}, "subscriber-duplicate", "c%d subscriber received %q@%d twice", cl.id, kv.Key, kv.Version)
			return
		}
		seen[id] = true
		if kv.Version < lastVer {
			r.violateLocked([]string{"C32"}, "subscriber-order", "c%d subscriber received version %d after %d", cl.id, kv.Version, lastVer)
			return
		}
		lastVer = kv.Version
		var mv *Version
		for i := range r.model.Keys[string(kv.Key)] {
			if v := &r.model.Keys[string(kv.Key)][i]; v.Ts == kv.Version {
				mv = v
			}
		}
		if mv == nil {
			for i := range r.model.Dropped {
				if d := &r.model.Dropped[i]; d.Key == string(kv.Key) && d.V.Ts == kv.Version {
					mv = &d.V // committed, delivered, and later removed by a drop
				}
			}
		}
		if mv == nil {
			r.violateLocked([]string{"C32"}, "subscriber-unknown-write", "c%d subscriber received %q@%d which was never committed", cl.id, kv.Key, kv.Version)
			return
		}
		um := byte(0)
		if len(kv.Meta) > 0 {
			um = kv.Meta[0]
		}
		if (!mv.Del && !bytes.Equal(mv.Val, kv.Value)) || mv.Exp != kv.ExpiresAt || mv.UM != um {
			r.violateLocked([]string{"C32"}, "subscriber-content", "c%d subscriber received %q@%d with value=%s um=%d exp=%d, committed was %s", cl.id, kv.Key, kv.Version, short(kv.Value), um, kv.ExpiresAt, mv)
			return
		}
	}
	// (2) everything required arrived
	for _, w := range want {
		if !seen[fmt.Sprintf("%s\x00%d", w.key, w.ver)] {
			r.violateLocked([]string{"C32"}, "subscriber-missed-write", "c%d subscriber (patterns %v, registered after ts %d) never received the committed write %q@%d", cl.id, ex.subMatch, reg, w.key, w.ver)
			return
		}
	}
}

// ---------- sequences (C30) ----------

func seqKey(i int) []byte { return []byte(fmt.Sprintf("~seq%d", i%2)) }

func opSeqGet(r *Run, cl *clientState, idx int, op *Op) {
	ex := r.ex(cl)
	s := op.S % 2
	if ex.seqs[s] != nil {
		return
	}
	bw := uint64(op.N)
	if bw == 0 {
		bw = 1
	}
	seq, err := r.db.GetSequence(seqKey(op.Key), bw)
	if err != nil {
		r.logf("c%d GetSequence err=%v", cl.id, err)
		return
	}
	ex.seqs[s] = &seqState{seq: seq, key: string(seqKey(op.Key)), last: -1}
	r.logf("c%d GetSequence(%s, bw=%d) slot %d ok", cl.id, seqKey(op.Key), bw, s)
}

func opSeqNext(r *Run, cl *clientState, idx int, op *Op) {
	ex := r.ex(cl)
	st := ex.seqs[op.S%2]
	if st == nil {
		return
	}
	n, err := st.seq.Next()
	r.logf("c%d seq[%s].Next -> %d err=%v", cl.id, st.key, n, err)
	if err != nil {
		r.probe("seq_next_error")
		return // an SSI conflict between two lessees is a legal outcome
	}
	r.stats.Checks++
	r.probe("seq_numbers")
	if int64(n) <= st.last {
		r.violate([]string{"C30"}, "sequence-not-increasing", "c%d Sequence on %q returned %d after %d", cl.id, st.key, n, st.last)
		return
	}
	st.last = int64(n)
	r.mu.Lock()
	m := r.seqSeen[st.key]
	if m == nil {
		m = map[uint64]string{}
		r.seqSeen[st.key] = m
	}
	prev, dup := m[n]
	m[n] = fmt.Sprintf("c%d op %d", cl.id, idx)
	r.mu.Unlock()
	if dup {
		r.mu.Lock()
		var hist []string
		for _, v := range r.model.Keys[st.key] {
			hist = append(hist, fmt.Sprintf("@%d=%x(failed=%v)", v.Ts, v.Val, r.model.Commits[v.Commit].Failed))
		}
		r.mu.Unlock()
		r.violate([]string{"C30"}, "sequence-duplicate", "sequence %q handed out %d twice: to %s and to c%d op %d; stored lease history %v", st.key, n, prev, cl.id, idx, hist)
	}
}

func opSeqRelease(r *Run, cl *clientState, idx int, op *Op) {
	ex := r.ex(cl)
	st := ex.seqs[op.S%2]
	if st == nil {
		return
	}
	err := st.seq.Release()
	r.logf("c%d seq[%s].Release err=%v", cl.id, st.key, err)
}

// ---------- merge operator (C31) ----------

func mergeKey(i int) []byte { return []byte(fmt.Sprintf("~merge%d", i%2)) }

func concat(existing, val []byte) []byte {
	return append(append([]byte{}, existing...), val...)
}

func opMergeStart(r *Run, cl *clientState, idx int, op *Op) {
	ex := r.ex(cl)
	s := op.S % 2
	if ex.merges[s] != nil {
		return
	}
	dur := time.Duration(op.N) * time.Millisecond
	if dur <= 0 {
		dur = 50 * time.Millisecond
	}
	k := mergeKey(op.Key)
	ex.merges[s] = &mergeState{op: r.db.GetMergeOperator(k, concat, dur), key: string(k)}
	r.probe("merge_operators")
}

func opMergeAdd(r *Run, cl *clientState, idx int, op *Op) {
	ex := r.ex(cl)
	st := ex.merges[op.S%2]
	if st == nil {
		return
	}
	val := MakeValue(cl.id, idx, 0, op.Sz)
	err := st.op.Add(val)
	r.logf("c%d merge[%s].Add(%s) err=%v", cl.id, st.key, short(val), err)
	if err != nil && !errors.Is(err, badger.ErrConflict) {
		r.violate([]string{"C31"}, "merge-add-error", "c%d MergeOperator.Add failed: %v", cl.id, err)
	}
}

func opMergeGet(r *Run, cl *clientState, idx int, op *Op) {
	ex := r.ex(cl)
	st := ex.merges[op.S%2]
	if st == nil {
		return
	}
	// the fold of every Add that had completed before this Get began must be
	// part of the result; Adds completing while Get runs may or may not be in.
	r.mu.Lock()
	doneBefore := r.maxAppliedTs
	r.mu.Unlock()
	got, err := st.op.Get()
	type mv struct {
		ts    uint64
		val   []byte
		acked bool
	}
	var adds []mv
	r.mu.Lock()
	for _, v := range r.model.Keys[st.key] {
		if v.Merge && r.model.live(&v) {
			adds = append(adds, mv{v.Ts, v.Val, v.Ts <= doneBefore && r.model.Commits[v.Commit].Acked})
		}
	}
	r.mu.Unlock()
	r.stats.Checks++
	r.logf("c%d merge[%s].Get -> %s err=%v (%d adds known)", cl.id, st.key, short(got), err, len(adds))
	if errors.Is(err, badger.ErrKeyNotFound) {
		for _, a := range adds {
			if a.acked {
				r.violate([]string{"C31"}, "merge-get-notfound", "c%d MergeOperator.Get on %q returned ErrKeyNotFound although Add(%s)@%d had completed", cl.id, st.key, short(a.val), a.ts)
				return
			}
		}
		return
	}
	if err != nil {
		r.violate([]string{"C31"}, "merge-get-error", "c%d MergeOperator.Get failed: %v", cl.id, err)
		return
	}
	// result must be the concatenation of a ts-ordered prefix of the adds that
	// contains every completed Add
	var acc []byte
	ok := false
	minLen := 0
	for i, a := range adds {
		if a.acked {
			minLen = i + 1
		}
	}
	for i := 0; i <= len(adds); i++ {
		if i >= minLen && bytes.Equal(acc, got) {
			ok = true
			break
		}
		if i < len(adds) {
			acc = append(acc, adds[i].val...)
		}
	}
	if !ok {
		var all []string
		for _, a := range adds {
			all = append(all, fmt.Sprintf("%s@%d(done=%v)", short(a.val), a.ts, a.acked))
		}
		r.violate([]string{"C31"}, "merge-get-not-the-fold", "c%d MergeOperator.Get on %q returned %s (len %d) which is not the fold of the Adds in order %v", cl.id, st.key, short(got), len(got), all)
	}
	if len(adds) > 1 {
		r.probe("merge_get_multi")
	}
}

func opMergeStop(r *Run, cl *clientState, idx int, op *Op) {
	ex := r.ex(cl)
	st := ex.merges[op.S%2]
	if st == nil {
		return
	}
	st.op.Stop()
	ex.merges[op.S%2] = nil
}

// stopExtras releases whatever a client still holds (called when it finishes).
func (r *Run) stopExtras(cl *clientState) {
	if cl.extra == nil {
		return
	}
	ex := cl.extra
	if ex.subCancel != nil {
		opUnsubscribe(r, cl, -1, &Op{K: "unsubscribe"})
	}
	for i, m := range ex.merges {
		if m != nil {
			m.op.Stop()
			ex.merges[i] = nil
		}
	}
	for _, s := range ex.seqs {
		if s != nil {
			_ = s.seq.Release()
		}
	}
}

// ---------- managed mode (C36) ----------

func init() {
	extraOps["discard_ts"] = opDiscardTs
	extraOps["mbatch"] = opManagedBatch
}

func opDiscardTs(r *Run, cl *clientState, idx int, op *Op) {
	if !r.c.Cfg.Managed {
		return
	}
	r.mu.Lock()
	ts := op.Ts
	for p := range r.pendingMts {
		if ts >= p {
			ts = p - 1 // stay below commits that are on their way to the oracle
		}
	}
	if ts < r.discardTs {
		ts = r.discardTs
	}
	r.discardTs = ts
	r.mu.Unlock()
	r.db.SetDiscardTs(ts)
	r.probe("discard_ts_moved")
	r.logf("c%d SetDiscardTs(%d)", cl.id, ts)
}

// opManagedBatch: N==0 -> NewManagedWriteBatch with SetEntryAt/DeleteAt (per-entry
// versions), N==1 -> NewWriteBatchAt(ts).
func opManagedBatch(r *Run, cl *clientState, idx int, op *Op) {
	if !r.c.Cfg.Managed {
		return
	}
	pc := &pendingCommit{opIdx: idx, batch: true}
	cl.cur = pc
	defer func() { cl.cur = nil }()
	type lw struct {
		w   WriteRec
		ver uint64
	}
	lastOp := map[string]lw{} // key\x00version -> last op
	var wb *badger.WriteBatch
	var at uint64
	if op.N == 1 {
		at = r.managedCommitTs(op.Ts)
		defer r.managedCommitDone(at)
		wb = r.db.NewWriteBatchAt(at)
	} else {
		wb = r.db.NewManagedWriteBatch()
	}
	for si, so := range op.Sub {
		key := r.key(so.Key)
		ver := at
		if op.N != 1 {
			ver = so.Ts
			r.mu.Lock()
			if ver <= r.discardTs {
				ver = r.discardTs + 1 + ver%5
			}
			r.mu.Unlock()
		}
		w := WriteRec{Key: string(key), Ver: ver}
		var err error
		if so.K == "del" {
			w.Del = true
			if op.N == 1 {
				err = wb.Delete(key)
			} else {
				err = wb.DeleteAt(key, ver)
			}
		} else {
			w.Val = MakeValue(cl.id, idx, si+1, so.Sz)
			e := badger.NewEntry(key, w.Val)
			if op.N == 1 {
				err = wb.SetEntry(e)
			} else {
				err = wb.SetEntryAt(e, ver)
			}
		}
		if errors.Is(err, badger.ErrTxnTooBig) {
			continue
		}
		if err != nil {
			wb.Cancel()
			r.violate([]string{"C27", "C36"}, "batch-op-error", "c%d managed WriteBatch op %d failed: %v", cl.id, si, err)
			return
		}
		lastOp[fmt.Sprintf("%s\x00%d", w.Key, ver)] = lw{w, ver}
	}
	err := wb.Flush()
	r.logf("c%d managed batch kind=%d of %d ops -> err=%v, %d internal commits", cl.id, op.N, len(op.Sub), err, len(pc.recs))
	if errors.Is(err, badger.ErrTxnTooBig) {
		r.probe("batch_flush_txn_too_big")
		return
	}
	if err != nil {
		r.violate([]string{"C27", "C36"}, "batch-flush-error", "c%d managed WriteBatch.Flush returned %v", cl.id, err)
		return
	}
	r.probe("managed_batches")
	r.stats.Checks++
	r.mu.Lock()
	for _, rec := range pc.recs {
		rec.Acked = true // Flush returned nil: every internal transaction is applied
	}
	r.mu.Unlock()
	// every (key, version) the batch wrote must have been committed with the last op's content
	r.mu.Lock()
	defer r.mu.Unlock()
	for _, l := range lastOp {
		var found *WriteRec
		for _, rec := range pc.recs {
			for i := range rec.Writes {
				w := &rec.Writes[i]
				wv := w.Ver
				if wv == 0 {
					wv = rec.Ts
				}
				if w.Key == l.w.Key && wv == l.ver {
					found = w // later internal transactions win
				}
			}
		}
		if found == nil {
			r.violateLocked([]string{"C27", "C36"}, "batch-op-lost", "c%d managed WriteBatch: nothing was committed for %q at version %d", cl.id, l.w.Key, l.ver)
			return
		}
		if found.Del != l.w.Del || (!l.w.Del && !bytes.Equal(found.Val, l.w.Val)) {
			r.violateLocked([]string{"C27", "C36"}, "batch-later-op-did-not-win", "c%d managed WriteBatch: %q@%d committed as %s but the last op issued was %s", cl.id, l.w.Key, l.ver, descW(*found), descW(l.w))
			return
		}
	}
}

// finalChecksManaged: at quiescence every read at sampled timestamps at or
// above the discard timestamp equals the model; versions equal the caller's.
func (r *Run) finalChecksManaged() {
	r.mu.Lock()
	keys := r.model.AllKeys()
	d := r.discardTs
	mx := r.model.MaxTs()
	r.mu.Unlock()
	tss := []uint64{d, d + 1, d + 3, (d + mx) / 2, mx, mx + 1, ^uint64(0)}
	cl := &clientState{id: -2}
	for _, rts := range tss {
		txn := r.db.NewTransactionAt(rts, false)
		for _, k := range keys {
			item, err := txn.Get([]byte(k))
			var o observed
			if err == nil {
				o, err = readItem(item, 2)
			}
			if err != nil && !errors.Is(err, badger.ErrKeyNotFound) {
				txn.Discard()
				r.violate([]string{"C36"}, "managed-read-error", "Get(%q)@%d failed: %v", k, rts, err)
				return
			}
			r.stats.Checks++
			r.compareManagedRead(cl, []byte(k), rts, now(), o)
			if r.aborted() {
				txn.Discard()
				return
			}
		}
		txn.Discard()
	}
}

// ---------- value-log GC (C15) and held items ----------

func init() {
	extraOps["gc"] = opGC
	extraOps["get_hold"] = opGetHold
	extraOps["iter_hold"] = opIterHold
	extraOps["read_held"] = opReadHeld
	extraOps["drop_prefix"] = opDropPrefix
	extraOps["drop_all"] = opDropAll
	extraOps["flatten"] = opFlatten
}

func opGC(r *Run, cl *clientState, idx int, op *Op) {
	if r.c.Cfg.InMemory {
		return
	}
	ratio := op.F
	if ratio <= 0 || ratio >= 1 {
		ratio = 0.5
	}
	r.setPhase("gc")
	err := r.db.RunValueLogGC(ratio)
	r.setPhase("")
	r.logf("c%d RunValueLogGC(%.2f) -> %v", cl.id, ratio, err)
	switch {
	case err == nil:
		r.probe("gc_rewrote_file")
	case errors.Is(err, badger.ErrNoRewrite), errors.Is(err, badger.ErrRejected):
		r.probe("gc_no_rewrite")
	default:
		if r.blockedByDrop(err) {
			return // the rewrite's write-back was rejected while a drop had writes blocked
		}
		if strings.Contains(err.Error(), badger.ErrTxnTooBig.Error()) {
			// the rewrite sizes an entry with its timestamp suffix and counts the value on
			// top: an entry that just fitted its transaction does not fit the write-back
			// batch; GC reports the error and leaves everything as it was (size arithmetic,
			// C28's subject; reads keep being checked)
			r.probe("gc_error_txn_too_big")
			return
		}
		if strings.Contains(err.Error(), "already marked for deletion") {
			// a second GC picked a file whose deletion an earlier GC deferred because
			// iterators were open: the call reports an error, reads are unaffected
			// (they keep being checked); an error return is not what C15/C38 forbid
			r.probe("gc_file_already_marked")
			return
		}
		r.violate([]string{"C15", "C38"}, "gc-error", "c%d RunValueLogGC(%.2f) failed: %v", cl.id, ratio, err)
	}
}

type heldItem struct {
	item *badger.Item
	it   *badger.Iterator
	key  string
	ver  uint64
	val  []byte
}

func opGetHold(r *Run, cl *clientState, idx int, op *Op) {
	ts := cl.slots[op.S]
	if ts == nil || ts.held != nil {
		return
	}
	key := r.key(op.Key)
	if _, own := ts.pending[string(key)]; own {
		return
	}
	item, err := ts.txn.Get(key)
	if ts.rw {
		ts.reads[string(key)] = true // also when the key is absent
	}
	if err != nil {
		return
	}
	r.mu.Lock()
	want := r.model.Read(string(key), ts.readTs, now())
	var val []byte
	if want != nil {
		val = want.Val
	}
	r.mu.Unlock()
	if want == nil || want.Ts != item.Version() {
		return // the ordinary get oracle covers mismatches; only hold consistent items
	}
	ts.held = &heldItem{item: item, key: string(key), ver: item.Version(), val: val}
	r.logf("c%d holds item %q@%d from Get", cl.id, key, item.Version())
}

func opIterHold(r *Run, cl *clientState, idx int, op *Op) {
	ts := cl.slots[op.S]
	if ts == nil || ts.held != nil {
		return
	}
	opt := badger.DefaultIteratorOptions
	opt.PrefetchValues = false
	it := ts.txn.NewIterator(opt)
	it.Seek(r.key(op.Key))
	if ts.rw {
		ts.reads[string(r.key(op.Key))] = true
	}
	if !it.Valid() {
		it.Close()
		return
	}
	item := it.Item()
	k := string(item.KeyCopy(nil))
	if ts.rw {
		ts.reads[k] = true
	}
	if _, own := ts.pending[k]; own {
		it.Close()
		return
	}
	r.mu.Lock()
	want := r.model.Read(k, ts.readTs, now())
	var val []byte
	if want != nil {
		val = want.Val
	}
	r.mu.Unlock()
	if want == nil || want.Ts != item.Version() {
		it.Close()
		return
	}
	ts.held = &heldItem{item: item, it: it, key: k, ver: item.Version(), val: val}
	r.logf("c%d holds item %q@%d from an open iterator", cl.id, k, item.Version())
}

func opReadHeld(r *Run, cl *clientState, idx int, op *Op) {
	ts := cl.slots[op.S]
	if ts == nil || ts.held == nil {
		return
	}
	h := ts.held
	r.stats.Checks++
	got, err := h.item.ValueCopy(nil)
	src := "Get"
	if h.it != nil {
		src = "an open iterator"
	}
	r.logf("c%d reads held item %q@%d -> %s err=%v", cl.id, h.key, h.ver, short(got), err)
	if r.dropTouches(h.key) {
		return
	}
	r.probe("held_item_read")
	if err != nil {
		r.violate([]string{"C15"}, "held-item-unreadable", "c%d: the value of item %q@%d obtained from %s in a still-open transaction can no longer be read: %v", cl.id, h.key, h.ver, src, firstLine(err.Error()))
		return
	}
	if !bytes.Equal(got, h.val) {
		r.violate([]string{"C15", "C06"}, "held-item-changed", "c%d: item %q@%d obtained from %s now yields %s, written was %s", cl.id, h.key, h.ver, src, short(got), short(h.val))
	}
}

func (ts *txnState) releaseHeld() {
	if ts.held != nil && ts.held.it != nil {
		ts.held.it.Close()
	}
	ts.held = nil
}

// ---------- DropPrefix / DropAll (C29) ----------

func (r *Run) dropTouches(key string) bool {
	r.mu.Lock()
	defer r.mu.Unlock()
	for _, d := range r.drops {
		if d.all {
			return true
		}
		for _, p := range d.prefixes {
			if bytes.HasPrefix([]byte(key), p) {
				return true
			}
		}
	}
	return false
}

type dropRec struct {
	prefixes  [][]byte
	all       bool
	startStep uint64
	endStep   uint64 // 0 while in progress
}

func (r *Run) applyDropToModel(d *dropRec) {
	// every version of a matching key that is in the model now was written
	// before the drop finished: it is gone
	for k, vs := range r.model.Keys {
		match := d.all
		for _, p := range d.prefixes {
			if bytes.HasPrefix([]byte(k), p) {
				match = true
			}
		}
		if !match {
			continue
		}
		// A commit whose timestamp is allocated but which has not been handed to
		// the write path yet (it is parked before sendToWriteCh) will be applied
		// after the drop (or be rejected): it is not part of what was dropped.
		var keep []Version
		for i := range vs {
			c := r.model.Commits[vs[i].Commit]
			if r.inFlight[c.Ts] && !c.Failed {
				keep = append(keep, vs[i])
				continue
			}
			r.model.Dropped = append(r.model.Dropped, droppedVersion{Key: k, V: vs[i]})
		}
		if len(keep) > 0 {
			r.model.Keys[k] = keep
		} else {
			delete(r.model.Keys, k)
		}
	}
}

func opDropPrefix(r *Run, cl *clientState, idx int, op *Op) {
	var ps [][]byte
	for _, so := range op.Sub {
		k := r.key(so.Key)
		n := so.N
		if n <= 0 || n > len(k) {
			n = len(k)
		}
		ps = append(ps, append([]byte{}, k[:n]...))
	}
	if len(ps) == 0 {
		return
	}
	r.doDrop(cl, &dropRec{prefixes: ps}, func() error { return r.db.DropPrefix(ps...) })
}

func opDropAll(r *Run, cl *clientState, idx int, op *Op) {
	r.doDrop(cl, &dropRec{all: true}, func() error { return r.db.DropAll() })
}

func (r *Run) doDrop(cl *clientState, d *dropRec, f func() error) {
	r.mu.Lock()
	d.startStep = r.e.Steps
	r.drops = append(r.drops, d)
	r.dropsActive++
	r.mu.Unlock()
	r.setPhase("drop")
	err := f()
	r.setPhase("")
	r.mu.Lock()
	r.dropsActive--
	d.endStep = r.e.Steps
	if err == nil {
		r.applyDropToModel(d)
	}
	r.mu.Unlock()
	r.logf("c%d drop %q all=%v -> %v", cl.id, d.prefixes, d.all, err)
	if errors.Is(err, badger.ErrBlockedWrites) {
		r.probe("drop_rejected_concurrent_drop")
		return
	}
	if err != nil {
		r.violate([]string{"C29", "C38"}, "drop-error", "c%d drop failed: %v", cl.id, err)
		return
	}
	r.probe("drops_done")
	r.stats.Checks++
	// right after the drop: nothing under the prefixes is visible to a new transaction
	txn := r.db.NewTransaction(false)
	defer txn.Discard()
	opt := badger.DefaultIteratorOptions
	opt.PrefetchValues = false
	it := txn.NewIterator(opt)
	defer it.Close()
	r.mu.Lock()
	m := r.model
	r.mu.Unlock()
	for it.Rewind(); it.Valid(); it.Next() {
		k := it.Item().KeyCopy(nil)
		ver := it.Item().Version()
		match := d.all
		for _, p := range d.prefixes {
			if bytes.HasPrefix(k, p) {
				match = true
			}
		}
		if !match {
			continue
		}
		// visible again only if written after the drop finished (model has it)
		r.mu.Lock()
		var ok bool
		for _, v := range m.Keys[string(k)] {
			if v.Ts == ver {
				ok = true
			}
		}
		r.mu.Unlock()
		if !ok && os.Getenv("VERIF_DEBUG_DROP") != "" {
			for _, p := range d.prefixes {
				o2 := badger.DefaultIteratorOptions
				o2.Prefix = p
				o2.PrefetchValues = false
				it2 := txn.NewIterator(o2)
				it2.Rewind()
				fmt.Fprintf(os.Stderr, "DEBUG prefix %q: ValidForPrefix=%v\n", p, it2.ValidForPrefix(p))
				it2.Close()
			}
			for _, t := range r.db.Tables() {
				fmt.Fprintf(os.Stderr, "DEBUG table %d L%d [%q .. %q] keys=%d\n", t.ID, t.Level, t.Left, t.Right, t.KeyCount)
			}
		}
		if !ok {
			r.violate([]string{"C29"}, "dropped-key-visible", "c%d: after the drop of %q (all=%v) returned, key %q@%d is still visible", cl.id, d.prefixes, d.all, k, ver)
			return
		}
	}
	it.Close()
	// ... and every other key is unchanged: read all keys of the case through the
	// ordinary snapshot-read oracle (keys under a dropped prefix are skipped there)
	if !d.all && !r.c.Cfg.Managed {
		txn2 := r.db.NewTransaction(false)
		defer txn2.Discard()
		cl2 := &clientState{id: -3}
		cl2.slots[0] = &txnState{txn: txn2, readTs: txn2.ReadTs(), pending: map[string]WriteRec{}, reads: map[string]bool{}}
		for i := range r.c.Keys {
			r.opGet(cl2, 0, &Op{K: "get", Key: i})
			if r.viol != nil {
				return
			}
		}
		r.probe("post_drop_survivor_reads")
	}
}

func opFlatten(r *Run, cl *clientState, idx int, op *Op) {
	w := op.N
	if w <= 0 {
		w = 2
	}
	err := r.db.Flatten(w)
	r.logf("c%d Flatten(%d) -> %v", cl.id, w, err)
	r.probe("flatten_calls")
}
