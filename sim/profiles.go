package sim

import (
	"fmt"
	"strings"
	"testing"
	"testing/synctest"

	"pgregory.net/rapid"
)

// Scenario couples a generator with the execution profile of one property.
type Scenario struct {
	Prop       string
	Family     string
	Level      string // exploration | fault_enumeration
	Gen        func(t *rapid.T) *Case
	Profile    *Profile
	Rule       string // how cases are generated / what makes one non-trivial
	Assume     []string
	Real       []string
	Stubs      []string
	Run        func(t *testing.T, c *Case, keep bool) Outcome // nil = Execute
	FaultKinds []string
	// NonTrivialProbe, when set, defines non-trivial runs: the probe fired at least once.
	NonTrivialProbe string
}

var pipelineGroups = [][]string{
	nil, // every point
	{"client", "txn", "doWrites", "writer", "txncb"},
	{"client", "txn", "doWrites", "writer", "flusher", "txncb"},
	{"client", "txn", "wm", "txncb"},
	{"client", "txn", "doWrites", "writer", "flusher", "wm", "txncb"},
}

var realAll = []string{"all of badger (built from /repo's working tree with -tags verif)", "ristretto v2.2.0 (copy with 8 reporting lines in z/)", "skiplist, WAL, value log, tables, MANIFEST on tmpfs files"}
var stubsCommon = []string{"goroutine scheduling order (decided by the simulator at vhook points)", "clock (testing/synctest fake clock)", "skiplist tower heights (case PRNG)"}

func profT(name string) *Profile {
	return &Profile{
		Name: name, MinClients: 2, MaxClients: 4, MaxOps: 40, MaxKeys: 8,
		WGet: 6, WSet: 6, WDel: 2, WIter: 2, WCommitWith: 1, WDiscard: 0, WLongTxn: 2,
		Meta: true, BigValues: true, Vlog: true, SmallMem: true,
		Groups: pipelineGroups, MaxDec: 200,
	}
}

var Scenarios = map[string]*Scenario{}

func register(s *Scenario) { Scenarios[s.Prop] = s }

func init() {
	// C01 snapshot reads
	p := profT("T-C01")
	p.TTL = true
	p.Compress = true
	p.Encrypt = true
	register(&Scenario{Prop: "C01", Family: "T", Level: "exploration", Profile: p,
		Gen:  func(t *rapid.T) *Case { return GenCase(t, p) },
		Rule: "rapid-generated case = (options, 2-4 client scripts over <=8 colliding keys, schedule); every Get/iterator item is compared with MVCC-model.read(key, txn.ReadTs, now). distinct = distinct interleaving digest (hash of the (goroutine,site) sequence); non-trivial = the run contains a checked read made after another commit's timestamp was allocated later than the reading transaction began, or a multi-item iterator check",
	})
	// C03 atomic/ordered/visible commits
	p3 := profT("T-C03")
	p3.WCommitWith = 4
	p3.WIter = 1
	register(&Scenario{Prop: "C03", Family: "T", Level: "exploration", Profile: p3,
		Gen:  func(t *rapid.T) *Case { return GenCase(t, p3) },
		Rule: "as C01 with more CommitWith and memtable rotation inside batches; oracles: commit ts unique+increasing in allocation order, begin-after-ack (readTs >= every acknowledged commit), no begin while a commit <= readTs is in flight, multi-key commits read all-or-nothing through model equality, failed commits invisible. non-trivial as C01",
	})
	// C02 SSI
	p2 := profT("T-C02")
	p2.MaxKeys = 5
	p2.WGet = 8
	p2.WIter = 3
	p2.WLongTxn = 4
	p2.MaxClients = 5
	p2mv := *p2
	p2m := &p2mv
	p2m.Name = "M-C02"
	p2m.Managed = true
	p2m.TsNarrow = true
	p2m.WDiscardTs = 3
	p2m.WIter = 0 // iterators are not modelled in managed mode (a commit below the read timestamp may still be in flight)
	register(&Scenario{Prop: "C02", Family: "T", Level: "exploration", Profile: p2,
		Gen: func(t *rapid.T) *Case {
			if rapid.IntRange(0, 3).Draw(t, "c02_managed_variant") == 0 {
				// managed mode: caller-chosen read/commit timestamps from a narrow range,
				// SetDiscardTs moving the conflict-log cleanup horizon
				c := GenCase(t, p2m)
				c.Cfg.DetectConflicts = true
				return c
			}
			c := GenCase(t, p2)
			c.Cfg.DetectConflicts = true
			return c
		},
		Rule: "read-modify-write clients on <=5 overlapping keys incl. long-running transactions held over many other commits; for every Commit the harness computes from the model whether a commit with ts > readTs wrote a key this transaction read (Get outside own writes, iterator Item, Seek key): ErrConflict iff such a witness exists; rejected commits must stay invisible (C01 oracle on later reads); one case in four runs in managed mode (NewTransactionAt/CommitAt with timestamps from 1..12, SetDiscardTs), where the witness is any earlier-accepted commit with a timestamp above the read timestamp, checked while the discard timestamp is not above the read timestamp. non-trivial = the run contains >=1 commit attempt of a transaction that had read a key while another commit was allocated after its begin",
	})
	// C08 crash prefix (kill model: page cache survives)
	p8 := profT("R-C08")
	p8.MinClients, p8.MaxClients, p8.MaxOps = 1, 3, 12
	p8.WIter, p8.WGet = 1, 2
	p8.WSet, p8.WDel = 8, 3
	p8.WCommitWith = 2
	p8.Groups = [][]string{nil}
	p8.MaxDec = 60
	register(&Scenario{Prop: "C08", Family: "R", Level: "fault_enumeration", Profile: p8,
		Gen: func(t *rapid.T) *Case {
			c := GenCase(t, p8)
			c.Faults.CrashEvery = 1
			return c
		},
		Run:    func(t *testing.T, c *Case, keep bool) Outcome { return ExecuteCrash(t, c, p8, keep) },
		Rule:   "short histories (1-3 clients x <=12 ops, tiny memtables pre-filled so that rotation+flush happen inside the history) run under the scheduler; EVERY persistence event of the history (mmap create/write/msync/truncate/delete, fd write/fsync/rename/remove, dirsync; up to 400 per history) is a kill-9 image (directory as the page cache holds it); each image is re-opened with the real code and checked: Open succeeds, no version that was never written, visible state == some commit-ts-order prefix containing every commit acknowledged before the event, structure (C14), new commit gets a higher ts (C11). evaluations = histories; distinct = distinct interleavings of histories with >=2 images; the number of verified images is in probes",
		Assume: []string{"kill model: everything written through mmap or write(2) before the crash point survives; identical consecutive directory states are verified once"},
	})
	// C12 flush/compaction never change reads >= watermark
	p12 := profT("K-C12")
	p12.Compaction = true
	p12.MaxOps = 30
	p12.MaxKeys = 10
	p12.WDel = 4
	p12.WLongTxn = 4
	p12.WIter = 3
	p12.Groups = [][]string{nil, {"client", "compactor", "flusher", "subcompact", "builder"}, {"client", "compactor", "flusher", "subcompact", "builder", "txn", "writer", "doWrites"}}
	register(&Scenario{Prop: "C12", Family: "K", Level: "exploration", Profile: p12, NonTrivialProbe: "compaction_done",
		Gen:  func(t *rapid.T) *Case { return GenCase(t, p12) },
		Rule: "clients (incl. long-running transactions opened before compactions) read and write <=10 colliding keys on a DB pre-filled to 1-12 memtables worth of versions and tombstones, with 2-4 real compactor goroutines (tiny tables/levels so that L0->Lbase, L0->L0, Ln->Ln+1, split sub-compactions and L0 stalls occur), every compaction phase (pick, build, MANIFEST, replace, delete) a schedule point and seeded clock jumps (50ms..61min) that age tables; every read (Get + iterators) must equal the never-forgetting MVCC model. non-trivial = run in which >=1 compaction completed",
	})
	// C13 retention
	p13 := profT("K-C13")
	p13.Compaction = true
	p13.MaxOps = 30
	p13.MaxKeys = 16 // many keys, so that some have fewer versions than NumVersionsToKeep
	p13.WDel = 3
	p13.WIter = 6
	p13.Discard = true
	p13.TTL = true
	p13.WLongTxn = 4
	p13.Groups = p12.Groups
	register(&Scenario{Prop: "C13", Family: "K", Level: "exploration", Profile: p13, NonTrivialProbe: "compaction_done",
		Gen: func(t *rapid.T) *Case {
			c := GenCase(t, p13)
			// retention counting matters for NumVersionsToKeep 2 and 3, and across the
			// boundaries of output tables: small tables so that compactions write several
			c.Cfg.NumVersionsToKeep = rapid.SampledFrom([]int{2, 2, 3, 3, 1, 1 << 30}).Draw(t, "versions_to_keep13")
			c.Cfg.BaseTableSize = int64(rapid.SampledFrom([]int{512, 512, 1 << 10, 2 << 10}).Draw(t, "base_table_size13"))
			for ci := range c.Clients {
				for oi := range c.Clients[ci] {
					if it := c.Clients[ci][oi].It; it != nil && oi%2 == 0 {
						it.AllV = it.KeyIter < 0
					}
				}
			}
			return c
		},
		Rule: "as C12 with NumVersionsToKeep in {1,2,3,inf}, WithDiscard, TTL and deletes; AllVersions/NewKeyIterator results must (a) be a subsequence of the written versions and (b) contain every version above the highest discard watermark any compaction used so far plus, at or below it, the newest NumVersionsToKeep versions per key cut at the first delete/expired/discard-earlier entry. non-trivial = run with >=1 completed compaction",
	})
	// C05 iterators over layouts produced by flush + compaction
	p5 := profT("K-C05")
	p5.Compaction = true
	p5.MaxOps = 24
	p5.MaxKeys = 12
	p5.WIter = 10
	p5.WGet = 1
	p5.WDel = 3
	p5.Groups = [][]string{{"client", "compactor", "flusher", "subcompact", "builder"}}
	p5b := profT("T-C05")
	p5b.MaxKeys = 12
	p5b.WIter = 10
	p5b.WGet = 1
	p5b.WDel = 3
	register(&Scenario{Prop: "C05", Family: "K", Level: "exploration", Profile: p5,
		Gen: func(t *rapid.T) *Case {
			if rapid.Bool().Draw(t, "with_compaction") {
				return GenCase(t, p5)
			}
			return GenCase(t, p5b)
		},
		Rule: "iterator-heavy scripts (forward/reverse, Prefix, Seek to existing keys / key+0x00 / key+0xff, AllVersions, SinceTs, NewKeyIterator, prefetch on/off with sizes 0-100, early stop + re-Seek) over <=12 keys that are prefixes of each other and contain 0x00/0xff, with data spread over memtables, L0 and deeper levels by pre-fill + real flushes/compactions; oracle: exact item sequence of the model (without compaction) or subsequence-of-written + retention lower bound (AllVersions with compaction). non-trivial = a checked iterator that returned >=2 items, or a run with >=1 completed compaction",
	})
	// C06 values and metadata wherever stored
	p6 := profT("T-C06")
	p6.TTL = true
	p6.Discard = true
	p6.WSet = 10
	p6.Compress, p6.Encrypt = true, true
	register(&Scenario{Prop: "C06", Family: "T", Level: "exploration", Profile: p6,
		Gen: func(t *rapid.T) *Case {
			c := GenCase(t, p6)
			if rapid.Bool().Draw(t, "dynamic_threshold") {
				c.Cfg.VLogPercentile = rapid.SampledFrom([]float64{0.5, 0.75, 0.99}).Draw(t, "vlog_pct")
			}
			return c
		},
		Rule: "value sizes drawn around the static value threshold (th-1, th, th+1, 2th, ...) and, with VLogPercentile on, around the moving one (the threshold listener goroutine runs while entries are between checkSize, vlog write and memtable write); every read path (Get+Value, Get+ValueCopy, prefetching and non-prefetching iteration, AllVersions) compares value bytes, user meta, expiry, version and the discard-earlier flag with what was written; compression/encryption/caches randomised. non-trivial as C01",
	})
	// C33 expiry
	p33 := profT("K-C33")
	p33.Compaction = true
	p33.TTL = true
	p33.MaxKeys = 6
	p33.WIter = 4
	p33.Groups = [][]string{{"client", "compactor", "flusher", "subcompact", "builder"}, nil}
	p33gv := *p33
	p33g := &p33gv
	p33g.Name = "G-C33"
	p33g.WGC = 8
	p33g.WDel = 3
	p33g.Groups = [][]string{nil, {"client", "gc", "compactor", "flusher", "subcompact", "builder"}}
	register(&Scenario{Prop: "C33", Family: "K", Level: "exploration", Profile: p33, NonTrivialProbe: "expiry_crossed",
		Gen: func(t *rapid.T) *Case {
			c := GenCase(t, p33)
			if rapid.IntRange(0, 2).Draw(t, "c33_gc_variant") == 0 {
				// variant: expiring values live in a value log that rotates every few
				// entries and RunValueLogGC moves them before their expiry passes
				c = GenCase(t, p33g)
				c.Cfg.ValueThreshold = int64(rapid.SampledFrom([]int{16, 32, 64}).Draw(t, "vt_gc"))
				c.Cfg.VLogPercentile = 0
				c.Cfg.ValueLogMaxEntries = uint32(rapid.SampledFrom([]int{3, 5, 10, 20}).Draw(t, "vlog_entries_gc"))
				c.Cfg.PrefillVlog = true
			}
			// part of the pre-fill expires 20-90 simulated seconds after it was written
			c.Cfg.PrefillTTL = rapid.SampledFrom([]int{0, 20, 45, 90}).Draw(t, "prefill_ttl")
			if c.Cfg.PrefillAgeS > 11 {
				c.Cfg.PrefillAgeS = 11
			}
			// TTLs of 1-5 s with clock jumps of 1 s / 11 s so that expiry is crossed mid-run
			c.Sched.ClockMs = []int{50, 1000, 1000, 2000, 11000}
			if c.Cfg.PrefillTTL > 0 {
				c.Sched.ClockMs = []int{50, 1000, 2000, 11000, 11000, 30000}
			}
			for ci := range c.Clients {
				for oi := range c.Clients[ci] {
					op := &c.Clients[ci][oi]
					if op.K == "set" && oi%2 == 0 && op.TTL == 0 {
						op.TTL = 1 + oi%5
					}
				}
			}
			return c
		},
		Rule: "entries with TTL 1-3600 s mixed with deletes and non-expiring overwrites; seeded clock jumps (50 ms..11 s) cross expiry times while transactions are open; Get and iterators (all options) must equal the model evaluated at the simulated time of the read, before and after flush/compaction; one case in three keeps the expiring values in a fast-rotating value log and runs RunValueLogGC so that entries are moved before their expiry passes. non-trivial = run in which >=1 checked read found its newest version expired (expiry crossed by the simulated clock)",
	})
	// C34 oracle and watermarks
	p34 := profT("T-C34")
	p34.MaxClients = 5
	p34.MaxOps = 30
	p34.WGet, p34.WIter = 2, 0
	p34.WCommitWith = 3
	p34.Groups = [][]string{nil, {"client", "txn", "wm", "txncb"}, {"client", "txn", "wm", "txncb", "doWrites", "writer"}}
	p34dv := *p34
	p34d := &p34dv
	p34d.Name = "T-C34d"
	p34d.WDrop = 3
	register(&Scenario{Prop: "C34", Family: "T", Level: "exploration", Profile: p34, NonTrivialProbe: "begin_while_commit_in_flight",
		Gen: func(t *rapid.T) *Case {
			if rapid.IntRange(0, 2).Draw(t, "c34_failing_commits_variant") == 0 {
				// commits that fail after their timestamp was allocated (writes blocked by a
				// concurrent DropPrefix/DropAll): their marks must be finished all the same
				return GenCase(t, p34d)
			}
			return GenCase(t, p34)
		},
		Rule: "2-5 clients doing short transactions (one case in three with concurrent DropPrefix/DropAll calls that make commits fail after their timestamp was allocated) with dense schedule points in readTs/newCommitTs/doneCommit and in both WaterMark.process goroutines; invariants: (i) when NewTransaction returns readTs no commit <= readTs is still in flight and every acknowledged commit is <= readTs, (ii) at every watermark advance d0->d1 no index in (d0,d1] has Begin without Done, (iii) every waiter is released (deadlock detector + step budget). non-trivial = run in which a transaction began while another commit was in flight",
	})
	// C07 / C11 / C14: close + re-open cycles after histories with and without compaction
	pre := profT("K-REOPEN")
	pre.Compaction = true
	pre.MaxOps = 20
	pre.MaxKeys = 10
	pre.WDel = 3
	pre.Groups = [][]string{{"client", "compactor", "flusher", "subcompact", "builder"}, nil}
	preT := profT("T-REOPEN")
	preT.MaxOps = 20
	preT.Compress, preT.Encrypt = true, true
	genReopen := func(t *rapid.T) *Case {
		if rapid.IntRange(0, 2).Draw(t, "with_compaction") > 0 {
			return GenCase(t, pre)
		}
		return GenCase(t, preT)
	}
	runReopen := func(t *testing.T, c *Case, keep bool) Outcome { return ExecuteReopen(t, c, pre, keep) }
	reopenRule := "histories of transactions (with pre-fill, flushes and, in 2/3 of the cases, real compactors) followed, under the scheduler, by: full dump (all keys + AllVersions) -> Close -> hash of every file -> read-only Open + full dump -> Close -> hash again -> read-write Open with other compaction settings (compactors on/off, table size, CompactL0OnClose) -> full dump -> commits on an existing and a new key. "
	register(&Scenario{Prop: "C07", Family: "R", Level: "exploration", Profile: pre, Gen: genReopen, Run: runReopen, NonTrivialProbe: "reopen_rw_verified",
		Rule: reopenRule + "C07 oracles: visible state identical across both re-opens and equal to the model; versions after re-open are a subset of those before; the read-only session created/modified/deleted no file. non-trivial = the whole cycle was verified"})
	register(&Scenario{Prop: "C11", Family: "R", Level: "exploration", Profile: pre, Gen: genReopen, Run: runReopen, NonTrivialProbe: "reopen_rw_verified",
		Rule: reopenRule + "C11 oracle: the commits after re-open are visible and their Item.Version() exceeds every version in the AllVersions dump (also checked after every recovered crash image by C08/C09/C10). non-trivial = the whole cycle was verified"})
	register(&Scenario{Prop: "C14", Family: "R", Level: "exploration", Profile: pre, Gen: genReopen, Run: runReopen, NonTrivialProbe: "reopen_rw_verified",
		Rule: reopenRule + "C14 oracles after re-open (and after every recovered crash image in C08/C09/C10): .sst files on disk == tables of the MANIFEST/levels, every level >= 1 sorted and disjoint on user keys (all versions of a key in one table), Open's own level validation passes. non-trivial = the whole cycle was verified"})
	// C09 torn tails of WAL / value log / MANIFEST
	p9 := profT("R-C09")
	p9.MinClients, p9.MaxClients, p9.MaxOps = 1, 2, 8
	p9.WIter, p9.WGet = 0, 1
	p9.WSet, p9.WDel = 8, 3
	p9.Groups = [][]string{nil}
	p9.MaxDec = 40
	p9.Encrypt = true
	register(&Scenario{Prop: "C09", Family: "R", Level: "fault_enumeration", Profile: p9,
		Gen: func(t *rapid.T) *Case {
			c := GenCase(t, p9)
			c.Faults.CrashEvery = 1000000 // only torn variants (plus their basis image)
			c.Faults.Torn = true
			c.Faults.TornEvery = rapid.SampledFrom([]int{1, 2, 3, 5}).Draw(t, "torn_every")
			return c
		},
		Run:    func(t *testing.T, c *Case, keep bool) Outcome { return ExecuteCrash(t, c, p9, keep) },
		Rule:   "short histories (tiny memtables, values across the value threshold so that both WAL and value log are appended, flushes so that the MANIFEST is appended, encrypted or not); right after every k-th append (WAL entry, value-log entry, MANIFEST change set) the directory is imaged and the record just written is cut at every byte (records <=48 B) or at the first/last 20 bytes + 12 sampled interior offsets, each cut once with the remainder zero-filled and once with the file ending at the cut; every such image is re-opened with the real code: Open must succeed, the state must be a commit prefix containing every acknowledged commit, and no value that was never written may be returned. evaluations = histories; torn images verified are in probes",
		Assume: []string{"a torn append is modelled at byte granularity on the record reported by the vhook.IO line next to the memcpy/write"},
	})
	// C10 SyncWrites vs power loss
	p10 := profT("R-C10")
	p10.MinClients, p10.MaxClients, p10.MaxOps = 1, 4, 14
	p10.WIter, p10.WGet = 0, 1
	p10.WSet, p10.WDel = 8, 3
	p10.WCommitWith = 6 // several requests in flight: batches of >1 request in writeRequests
	p10.Groups = [][]string{nil}
	p10.MaxDec = 60
	register(&Scenario{Prop: "C10", Family: "R", Level: "fault_enumeration", Profile: p10,
		Gen: func(t *rapid.T) *Case {
			c := GenCase(t, p10)
			c.Cfg.SyncWrites = true
			c.Faults.CrashEvery = 1
			c.Faults.Power = true
			return c
		},
		Run:    func(t *testing.T, c *Case, keep bool) Outcome { return ExecuteCrash(t, c, p10, keep) },
		Rule:   "as C08 with SyncWrites=true; at EVERY persistence event a power-loss image is built from the durable-state tracker (per file: content at its last msync/fsync/O_DSYNC write; per directory: the entries present at its last directory fsync; a linked but never-synced file appears zero-filled at its creation size) and re-opened with the real code; oracles as C08 with acknowledged = Commit returned nil / callback got nil. evaluations = histories; the number of verified power-loss images is in probes",
		Assume: []string{"strict power-loss model as the property states it: only explicitly synced file contents and directory entries covered by a directory fsync survive", "fd-file syncs (MANIFEST rewrite, KEYREGISTRY) are reported by vhook lines next to the call; the MANIFEST append fsync is reported through the syncFunc seam; mmap-file syncs are reported from inside the instrumented ristretto copy"},
	})
	// C27 WriteBatch
	p27 := profT("T-C27")
	p27.WBatch = 10
	p27.MaxOps = 24
	register(&Scenario{Prop: "C27", Family: "T", Level: "exploration", Profile: p27, NonTrivialProbe: "batch_split",
		Gen:  func(t *rapid.T) *Case { return GenCase(t, p27) },
		Rule: "clients mix ordinary transactions with WriteBatch ops (1-12 Set/SetEntry/Delete on repeated keys, sizes and tiny memtables that force internal splits) whose internal commits and callbacks travel through the scheduled pipeline; after Flush()==nil every key of the batch must have reached the write path and the newest entry committed for it must be the last op issued; all later reads go through the C01 oracle. non-trivial = run in which a batch was split into >=2 internal transactions",
	})
	// C32 subscribers
	p32 := profT("T-C32")
	p32.WSub = 10
	p32.WIter, p32.WGet = 0, 1
	p32.MaxOps = 30
	p32.MinClients, p32.MaxClients = 2, 5
	p32.Groups = [][]string{nil, {"client", "txn", "doWrites", "writer", "publisher", "subscriber", "txncb"}}
	p32gv := *p32
	p32g := &p32gv
	p32g.Name = "G-C32"
	p32g.Compaction = true
	p32g.WGC = 6
	p32g.WDel = 3
	p32g.MaxKeys = 8
	p32g.Groups = [][]string{nil, {"client", "gc", "compactor", "flusher", "subcompact", "builder", "txn", "writer", "doWrites", "publisher", "subscriber"}}
	register(&Scenario{Prop: "C32", Family: "T", Level: "exploration", Profile: p32, NonTrivialProbe: "subscriber_required_kvs",
		Gen: func(t *rapid.T) *Case {
			if rapid.IntRange(0, 2).Draw(t, "c32_gc_variant") != 0 {
				return GenCase(t, p32)
			}
			// variant: value-log GC moves committed entries while subscribers listen
			c := GenCase(t, p32g)
			c.Cfg.ValueThreshold = int64(rapid.SampledFrom([]int{16, 32, 64}).Draw(t, "vt_gc"))
			c.Cfg.VLogPercentile = 0
			c.Cfg.ValueLogMaxEntries = uint32(rapid.SampledFrom([]int{3, 5, 10, 20}).Draw(t, "vlog_entries_gc"))
			c.Cfg.PrefillVlog = true
			return c
		},
		Rule: "2-5 clients commit on <=8 nesting keys while some of them hold a subscription (1-2 patterns: a key or its 1-2 byte prefix, with ignored byte positions 0, 1 or 0-1); publisher and subscriber goroutines are scheduled; on unsubscribe the received KV sequence must contain every matching write of commits allocated after the registration event and acknowledged before the unsubscribe began, each exactly once, in commit-ts order, with key/value/version/expiry/user-meta as committed, and nothing for user keys that match no pattern; one case in three runs on a pre-filled database with real compactors and RunValueLogGC calls moving committed entries while subscribers listen. non-trivial = run in which a subscriber was owed >=1 KV",
	})
	// C30 sequences
	p30 := profT("T-C30")
	p30.WSeq = 10
	p30.WIter, p30.WGet, p30.WSet, p30.WDel = 0, 1, 2, 0
	p30.MaxOps = 30
	p30.MinClients, p30.MaxClients = 2, 4
	p30.NoIter = true
	register(&Scenario{Prop: "C30", Family: "T", Level: "exploration", Profile: p30, NonTrivialProbe: "seq_numbers",
		Gen: func(t *rapid.T) *Case {
			c := GenCase(t, p30)
			c.Cfg.DetectConflicts = true // lessees of one key are arbitrated by conflict detection
			return c
		},
		Rule: "2-4 clients each hold up to two Sequence objects on two shared keys (bandwidth 1-4) and interleave Next / Release / re-lease with lease transactions scheduled step by step; every number returned for a key must be new, and increasing per object (a Next that returns an error is legal; DetectConflicts is on, since lessees of one key are arbitrated by transaction conflicts). non-trivial = run in which >=1 number was handed out",
	})
	// C31 merge operator
	p31 := profT("K-C31")
	p31.WMerge = 10
	p31.WIter, p31.WGet, p31.WSet, p31.WDel = 0, 1, 2, 0
	p31.MaxOps = 30
	p31.Compaction = true
	p31.Clock = true
	p31.NoIter = true
	p31.Groups = [][]string{nil, {"client", "merge", "compactor", "flusher", "subcompact", "builder", "txn"}}
	register(&Scenario{Prop: "C31", Family: "K", Level: "exploration", Profile: p31, NonTrivialProbe: "merge_get_multi",
		Gen: func(t *rapid.T) *Case {
			c := GenCase(t, p31)
			// ordinary keys that extend a merge key ("~merge0" + suffix) live next to it
			n0 := len(c.Keys)
			c.Keys = append(c.Keys, HexBytes("~merge0\x00"), HexBytes("~merge1z"), HexBytes("~merge0"+"\xff"))
			for ci := range c.Clients {
				for oi := range c.Clients[ci] {
					op := &c.Clients[ci][oi]
					if (op.K == "set" || op.K == "get") && (oi+ci)%2 == 0 {
						op.Key = n0 + (oi+ci)/2%3
					}
				}
			}
			return c
		},
		Rule: "clients Add unique values to two shared merge keys (byte concatenation: associative, not commutative) and Get them, while the operators' own ticker-driven compaction (10 ms-1 s), flushes and real LSM compactions are scheduled actors; Get must equal the concatenation, in commit order, of a prefix of the Adds that contains every Add completed before the Get began, ErrKeyNotFound only before the first Add. non-trivial = a Get checked against >=2 Adds",
	})
	// C36 managed mode
	p36 := profT("M-C36")
	p36.Managed = true
	p36.Compaction = true
	p36.WIter = 0
	p36.WGet = 8
	p36.WDiscardTs, p36.WMBatch = 3, 3
	p36.MaxOps = 30
	p36.MaxKeys = 6
	p36.Groups = [][]string{nil, {"client", "compactor", "flusher", "subcompact", "builder", "txn"}}
	register(&Scenario{Prop: "C36", Family: "M", Level: "exploration", Profile: p36, NonTrivialProbe: "managed_read_checked",
		Gen:  func(t *rapid.T) *Case { return GenCase(t, p36) },
		Rule: "managed-mode DB with real compactors: clients open transactions at arbitrary read timestamps (1-90), commit with arbitrary non-monotonic CommitAt timestamps (kept distinct and above the current discard timestamp), write through NewManagedWriteBatch (SetEntryAt/DeleteAt with per-entry versions) and NewWriteBatchAt, and raise SetDiscardTs; every Get at a read timestamp >= the discard timestamp must return the newest write at or below it among acknowledged commits (a commit still in flight may or may not be visible), with Item.Version() equal to the caller's timestamp; at quiescence all keys are re-read at 7 timestamps from the discard timestamp upward. non-trivial = run with >=1 checked read that found a value",
	})
	// C15 value-log GC
	p15 := profT("G-C15")
	p15.Compaction = true
	p15.WGC = 10
	p15.MaxOps = 30
	p15.MaxKeys = 8
	p15.WDel = 4
	p15.WLongTxn = 4
	p15.Groups = [][]string{nil, {"client", "gc", "compactor", "flusher", "subcompact", "builder"}, {"client", "gc", "compactor", "flusher", "subcompact", "builder", "txn", "writer", "doWrites"}}
	register(&Scenario{Prop: "C15", Family: "G", Level: "exploration", Profile: p15, NonTrivialProbe: "gc_rewrote_file",
		Gen: func(t *rapid.T) *Case {
			c := GenCase(t, p15)
			// values must live in the value log and its files must rotate often
			c.Cfg.ValueThreshold = int64(rapid.SampledFrom([]int{16, 32, 64}).Draw(t, "vt_gc"))
			c.Cfg.VLogPercentile = 0
			c.Cfg.ValueLogMaxEntries = uint32(rapid.SampledFrom([]int{3, 5, 10, 20}).Draw(t, "vlog_entries_gc"))
			c.Cfg.PrefillVlog = true
			return c
		},
		Rule: "DB pre-filled with versions and tombstones whose values live in a value log that rotates every 3-20 entries, real compactors producing discard statistics; clients run RunValueLogGC(0.01-0.9) with schedule points after the pick, at every scanned entry, after the scan, per write-back batch and before/after file deletion, interleaved with commits, deletes, iterators and transactions that hold an Item from Get or from an open iterator and read its value later; oracles: every read equals the MVCC model (nothing changed, lost or resurrected), held items stay readable with the written value while their transaction is open. non-trivial = run in which GC rewrote >=1 file",
	})
	// C29 drops
	p29 := profT("K-C29")
	p29.Compaction = true
	p29.WDrop = 10
	p29.MaxOps = 24
	p29.MaxKeys = 8
	p29.WIter = 1
	p29.Groups = [][]string{nil, {"client", "compactor", "flusher", "subcompact", "builder", "txn", "writer", "doWrites"}}
	register(&Scenario{Prop: "C29", Family: "K", Level: "exploration", Profile: p29, NonTrivialProbe: "drops_done",
		Gen:  func(t *rapid.T) *Case { return GenCase(t, p29) },
		Rule: "data spread over memtables, L0, deeper levels and value log (pre-fill + real compactors); clients run DropPrefix (1-2 prefixes: a key or its 1-2 byte prefix) and DropAll concurrently with writers; oracles: right after a drop returns no key under the prefixes is visible unless written after the drop, commits concurrent with a drop either fail with the blocked-writes error or are applied wholly (model = everything committed before the drop returned is gone for the prefixes), other keys keep equalling the model, writes are accepted afterwards, and the final close/re-open shows the same. non-trivial = run in which >=1 drop completed",
	})
	// C37 in-memory parity
	p37 := profT("T-C37")
	p37.BigValues = false
	p37.WBatch = 3
	p37.MaxOps = 24
	p37k := profT("K-C37")
	p37k.BigValues = false
	p37k.Compaction = true
	p37k.WBatch = 3
	p37k.WDrop = 2
	p37k.MaxOps = 24
	register(&Scenario{Prop: "C37", Family: "T", Level: "exploration", Profile: p37, NonTrivialProbe: "differential_results_compared",
		Gen: func(t *rapid.T) *Case {
			var c *Case
			if rapid.Bool().Draw(t, "with_compaction") {
				c = GenCase(t, p37k)
			} else {
				c = GenCase(t, p37)
			}
			c.Cfg.EncKeyLen = 0
			// values must stay within the in-memory limit (= the value threshold)
			c.Cfg.ValueThreshold = c.Cfg.MemTableSize * 15 / 100
			c.Cfg.VLogPercentile = 0
			return c
		},
		Run:  func(t *testing.T, c *Case, keep bool) Outcome { return ExecuteInMemory(t, c, p37, keep) },
		Rule: "(a) the generated history (transactions, write batches, and in half of the cases real compactors and drops) runs on a database opened with InMemory under the same model oracles as on disk, with the persistence-event tracker installed: any mmap/fd/dir event or any file in the working directory is a violation; (b) the first client's script is run sequentially on an on-disk and on an InMemory database and every Get/iterator/commit/batch result line must be identical. non-trivial = run in which >=1 differential result was compared",
	})
	// C38 no deadlock
	p38 := profT("K-C38")
	p38.Compaction = true
	p38.CloseInflight = true
	p38.NoHold = true
	p38.MinClients, p38.MaxClients = 3, 5
	p38.MaxOps = 30
	p38.WCommitWith = 6
	p38.WBatch, p38.WSub = 4, 2
	p38.WGC, p38.WDrop, p38.WFlatten = 3, 3, 2
	p38.WIter = 2
	p38.Groups = [][]string{nil, {"client", "compactor", "flusher", "subcompact", "builder", "txn", "writer", "doWrites", "txncb"}, {"client", "compactor", "flusher", "txn"}}
	register(&Scenario{Prop: "C38", Family: "K", Level: "exploration", Profile: p38, NonTrivialProbe: "l0_stall_poll",
		Gen: func(t *rapid.T) *Case {
			c := GenCase(t, p38)
			// stall-prone: one or two memtables, L0 stalls one table above the compaction trigger
			c.Cfg.NumMemtables = rapid.IntRange(1, 2).Draw(t, "num_memtables_38")
			c.Cfg.L0Tables = rapid.IntRange(1, 2).Draw(t, "l0_tables_38")
			c.Cfg.L0Stall = c.Cfg.L0Tables + 1
			c.Cfg.ValueLogMaxEntries = uint32(rapid.SampledFrom([]int{5, 20, 1000}).Draw(t, "vlog_entries_38"))
			return c
		},
		Rule: "3-5 clients mix commits, CommitWith, reads, iterators, WriteBatch.Flush, RunValueLogGC, DropAll, DropPrefix, Flatten and Subscribe/cancel against 2-4 real compactors with one or two memtables and an L0 stall limit one above the compaction trigger (writers stall on a full L0 / memtable queue), and Close starts while CommitWith callbacks are still in flight; oracles: deadlock detector (nothing runnable and 90 simulated seconds change nothing), step budget (every call returns within the budget once the scheduler is fair), every callback runs, and a real-time watchdog that classifies a wedged bubble whose goroutines all sit in badger code with a mutex waiter as a lock-order deadlock. non-trivial = run in which a writer actually hit the L0 stall",
	})
	// C22 skiplist
	register(&Scenario{Prop: "C22", Family: "S", Level: "exploration", Gen: genSklCase,
		Run:  func(t *testing.T, c *Case, keep bool) Outcome { return ExecuteSkiplist(t, c, keep) },
		Rule: "2-4 writer goroutines put 1-12 internal keys each (<=6 user keys that share prefixes, versions 1-4, so the same internal key is overwritten concurrently) into one real skl.Skiplist while 1-3 readers Get and iterate in both directions; schedule points before every CAS / setValue / height CAS of Put let the scheduler interleave at the granularity of the lock-free algorithm; oracles: porcupine linearizability of the Put/Get history per user key against a sorted-map model (Get = newest version <= ts), every iteration strictly sorted, duplicate-free, containing every key whose Put returned before it began and only values some Put wrote for that key, final content = one of the last concurrent writers per key. non-trivial = run with an iteration that returned >=2 entries",
		Real: []string{"skl.Skiplist and its arena (real code, tag verif)"}, Stubs: []string{"goroutine scheduling (vhook points before each CAS)", "tower heights (case PRNG)"},
	})
	// C17 MANIFEST
	register(&Scenario{Prop: "C17", Family: "L", Level: "fault_enumeration", Gen: genManifestCase,
		Run:  func(t *testing.T, c *Case, keep bool) Outcome { return ExecuteManifest(t, c, keep) },
		Rule: "1-3 goroutines push 1-10 change sets each (1-4 creates/deletes per set, several levels, key ids, compression types, deletes of unknown tables) through the production addChanges with a rewrite threshold from {0,1,3,10,1000} so that automatic rewrites happen; then (1) the in-memory table map and ReplayManifestFile of the file must equal the model after the last set; (2) the file is cut at EVERY byte of the last <=4 change sets: replay must succeed and equal the model after the last set wholly before the cut; (3) one bit is flipped at EVERY byte of the same region: replay must fail or leave the state after some complete set, never anything else. evaluations = change-set histories; non-trivial = history with >=1 appended (not rewritten-away) change set",
		Real: []string{"manifest.go: helpOpenOrCreateManifestFile, addChanges, rewrite, ReplayManifestFile (real code, tag verif)"}, Stubs: []string{"the table files themselves (the MANIFEST code never opens them)", "goroutine scheduling"},
	})
	// C16 log records
	p16 := profT("L-C16")
	p16.MinClients, p16.MaxClients, p16.MaxOps = 1, 3, 14
	p16.WIter, p16.WGet = 0, 1
	p16.WSet, p16.WDel = 8, 3
	p16.WBatch = 2
	p16.TTL, p16.Discard, p16.Encrypt = true, true, true
	p16.Groups = [][]string{nil}
	register(&Scenario{Prop: "C16", Family: "L", Level: "fault_enumeration", Profile: p16,
		Gen: func(t *rapid.T) *Case {
			c := GenCase(t, p16)
			c.Cfg.Prefill = rapid.SampledFrom([]int{0, 20, 50}).Draw(t, "prefill16")
			c.Cfg.MemTableSize = 64 << 10 // keep everything in the first WAL
			if rapid.IntRange(0, 3).Draw(t, "c16_big_keys") == 0 {
				// keys at and just below the maximum key size (65000 bytes): the record's
				// key length field then counts the 8-byte timestamp on top
				c.Cfg.MemTableSize = 1 << 20
				c.Cfg.Prefill = 0
				for i, n := range []int{65000, 64993, 64992, 65000 - 8} {
					if i < len(c.Keys) {
						c.Keys[i] = HexBytes(longKey(byte('p'+i), n))
					}
				}
			}
			return c
		},
		Run:  func(t *testing.T, c *Case, keep bool) Outcome { return ExecuteLogs(t, c, p16, keep) },
		Rule: "short histories (transactions and write batches, values on both sides of the value threshold, user meta, TTL, discard flag, deletes; plain and with 16/24/32-byte encryption keys; one case in four with keys of 64992-65000 bytes, the maximum key size) produce a WAL and value-log files; the directory is imaged before Close and (a) every .mem and .vlog file is iterated with the production logFile.iterate: every delivered record must equal the write of the model at that key+version (value bytes, directly or through its value pointer into the value-log image, user meta, expiry, delete/discard bits), transactions are delivered complete and in commit order; (b) one byte is flipped at EVERY position of the last 160 bytes of every log: no record that differs from a written one may be delivered and the delivered records must be a prefix of the intact delivery. evaluations = histories; non-trivial = history with >=2 verified records",
		Real: []string{"memtable.go logFile (encodeEntry/iterate/decrypt), value.go write path, key registry (real code)"}, Stubs: stubsCommon,
	})
	// C35 directory locks
	register(&Scenario{Prop: "C35", Family: "seq", Level: "exploration", Gen: genLockCase,
		Run:  func(t *testing.T, c *Case, keep bool) Outcome { return ExecuteLocks(t, c, keep) },
		Rule: "sequences of 2-14 open-read-write / open-read-only / Close calls issued by four handles (two in this process, two in a helper child process driven over a pipe) on four directory layouts (Dir==ValueDir=A; Dir C with ValueDir B; Dir D with the same ValueDir B) of databases created beforehand; a lock-table model decides for every Open whether it must succeed (no conflicting holder: a read-write holder excludes everybody, read-only holders coexist) and every Close must release. No schedule is involved: the quantifier is over call orderings. non-trivial = sequence in which >=2 handles were open at once or an Open was refused",
		Real: []string{"dir_unix.go flock-based directory lock, Open/Close (real code) in two real processes"}, Stubs: []string{"none (no simulated scheduler: real processes in a generated, replayable order)"},
	})
	// C25 Stream snapshot
	p25 := profT("K-C25")
	p25.WStream = 10
	p25.MaxOps = 20
	p25.MaxKeys = 10
	p25.MinClients, p25.MaxClients = 2, 4
	p25.WIter = 0
	p25.WBatch = 6 // multi-key commits issued by one op while the stream runs
	p25.WGet = 2
	p25.TTL = true
	p25.Groups = [][]string{nil, {"client", "stream", "txn", "flusher"}}
	register(&Scenario{Prop: "C25", Family: "K", Level: "exploration", Profile: p25, NonTrivialProbe: "stream_with_concurrent_commits",
		Gen: func(t *rapid.T) *Case {
			c := GenCase(t, p25)
			// several L0 tables so that db.Ranges splits the key space into several ranges
			c.Cfg.MemTableSize = int64(rapid.SampledFrom([]int{2 << 10, 3 << 10, 4 << 10}).Draw(t, "memtable25"))
			c.Cfg.Prefill = rapid.SampledFrom([]int{150, 300, 500}).Draw(t, "prefill25")
			c.Cfg.PrefillAllKeys = true
			if c.Cfg.ValueThreshold > c.Cfg.MemTableSize*15/100 {
				c.Cfg.ValueThreshold = c.Cfg.MemTableSize * 15 / 100
			}
			return c
		},
		Rule: "the first client runs Stream.Orchestrate (NumGo 1-4, no prefix / a one-byte Prefix / a ChooseKey predicate) over a database whose data is spread over several L0 tables (so that the key space is split into several ranges), while 1-3 other clients commit multi-key transactions; producer goroutines are scheduled actors with points before each producer creates its transaction and at each range hand-out; Send contains a schedule point; oracle: Send calls never overlap, no (key,version) is emitted twice, and there is ONE snapshot timestamp between the call and the return of Orchestrate for which the emitted multiset equals the model's ToList of exactly the chosen keys. non-trivial = a verified Stream run during which at least one commit timestamp was allocated",
	})
	// C24 backup / load
	p24 := profT("K-C24")
	p24.WBackup = 10
	p24.MaxOps = 20
	p24.MaxKeys = 8
	p24.MinClients, p24.MaxClients = 2, 4
	p24.WIter = 0
	p24.WBatch = 6
	p24.WGet = 2
	p24.Groups = [][]string{nil, {"client", "stream", "txn", "flusher"}}
	register(&Scenario{Prop: "C24", Family: "K", Level: "exploration", Profile: p24, NonTrivialProbe: "restores_verified",
		Gen: func(t *rapid.T) *Case {
			c := GenCase(t, p24)
			c.Cfg.MemTableSize = int64(rapid.SampledFrom([]int{2 << 10, 3 << 10, 4 << 10}).Draw(t, "memtable24"))
			c.Cfg.Prefill = rapid.SampledFrom([]int{150, 300}).Draw(t, "prefill24")
			c.Cfg.PrefillAllKeys = true
			if c.Cfg.ValueThreshold > c.Cfg.MemTableSize*15/100 {
				c.Cfg.ValueThreshold = c.Cfg.MemTableSize * 15 / 100
			}
			return c
		},
		Run: func(t *testing.T, c *Case, keep bool) Outcome {
			// the restore runs after the simulated run, in a bubble of its own without the
			// scheduler: Load is a burst of asynchronous writes whose batching in doWrites
			// would otherwise consume schedule decisions in a timing-dependent number
			return executeWith(t, c, p24, keep, nil, func(t *testing.T, r *Run) {
				if r.viol != nil || r.harness != "" {
					return
				}
				defer func() {
					if p := recover(); p != nil && r.viol == nil && r.harness == "" {
						r.harness = fmt.Sprintf("panic around restore bubble: %v", p)
					}
				}()
				synctest.Test(t, func(t *testing.T) { restoreCheck(r) })
			})
		},
		Rule: "the first client takes a full Backup and then incremental Backups, each with the version the previous one returned, while 1-3 other clients commit between AND during the backups (the backup's producer goroutines are scheduled actors); at the end the whole chain is Loaded into a fresh database, which must equal the source (value, user meta, expiry, version of every key) as of some single timestamp between the start and the end of the last backup. non-trivial = run whose chain was restored and verified",
	})
	// C23 encryption at rest
	genEnc := func(t *rapid.T) *Case {
		c := genReopen(t)
		c.Cfg.InMemory = false
		c.Cfg.EncKeyLen = rapid.SampledFrom([]int{16, 24, 32}).Draw(t, "enc_key_len23")
		c.Cfg.BlockCache, c.Cfg.IndexCache = true, true
		c.Cfg.EncRotS = rapid.SampledFrom([]int{0, 1, 30, 3600}).Draw(t, "enc_rot_s")
		if rapid.IntRange(0, 3).Draw(t, "enc_rot_subsecond") == 0 {
			c.Cfg.EncRotMs = rapid.SampledFrom([]int{50, 300}).Draw(t, "enc_rot_ms") // several data keys per second
		}
		c.Cfg.EncRotateMaster = rapid.Bool().Draw(t, "enc_rotate_master")
		c.Cfg.Compression = rapid.IntRange(0, 2).Draw(t, "compression23")
		if c.Sched.ClockPct == 0 {
			c.Sched.ClockPct = 10
			c.Sched.ClockMs = []int{50, 1000, 11000, 3700000}
		}
		return c
	}
	register(&Scenario{Prop: "C23", Family: "R", Level: "exploration", Profile: pre, Gen: genEnc, NonTrivialProbe: "enc_reopen_verified",
		Run: func(t *testing.T, c *Case, keep bool) Outcome {
			return executeWith(t, c, pre, keep, func(r *Run) { r.extra = encryptionChecks }, func(t *testing.T, r *Run) {
				if r.viol != nil || r.harness != "" {
					return
				}
				defer func() {
					// a refused Open leaves cache goroutines behind: the bubble then ends with a
					// "blocked goroutines remain" panic, which says nothing about the checks
					if p := recover(); p != nil && !strings.Contains(fmt.Sprint(p), "blocked goroutines remain") && r.viol == nil {
						r.harness = fmt.Sprintf("panic around encryption bubble: %v", p)
					}
				}()
				synctest.Test(t, func(t *testing.T) { encryptionPost(r) })
			})
		},
		Rule: "histories as in the re-open scenario (pre-fill, flushes, in 2/3 of the cases real compactors, values on both sides of the value threshold) with a 16/24/32-byte master key, data-key rotation every 50 ms / 300 ms / 1 s / 30 s / 1 h / 10 days under simulated clock jumps, compression on/off; during the run every read goes through the C01 oracle (= what the unencrypted database returns) and every (data key id, IV) pair reported by the table builder and the log writer must be new; before the final Close: full dump, Close, every file in Dir/ValueDir is scanned for every user key of >=8 bytes and for the id marker of every written value (none may occur), Open with another key of the same length must fail with ErrEncryptionKeyMismatch and leave every file hash unchanged, then (half of the cases) the master key is rotated with OpenKeyRegistry+WriteKeyRegistry as `badger rotate` does, the old key must now be refused, and the re-opened database must show the same visible state and versions as before and equal the model; then a third session: the clock passes the rotation interval, probe keys are written (under a new data key), the database is closed and opened again, and everything (old data keys included) must read back. non-trivial = run whose re-open was verified",
		Real: []string{"key_registry.go, y/encrypt.go, table builder/reader encryption, logFile encryption, Open/Close (real code)"}, Stubs: stubsCommon,
	})
	// C26 StreamWriter
	p26 := profT("W-C26")
	p26.Groups = [][]string{nil, {"client", "sw", "builder"}}
	p26.TTL = true
	p26.Compress, p26.Encrypt = true, true
	register(&Scenario{Prop: "C26", Family: "W", Level: "exploration", Profile: p26, NonTrivialProbe: "sw_verified",
		Gen: func(t *rapid.T) *Case { return genSWCase(t, p26) },
		Run: func(t *testing.T, c *Case, keep bool) Outcome {
			return executeWith(t, c, p26, keep, func(r *Run) { r.extra = reopenChecks }, nil)
		},
		Rule: "1-4 sorted streams with disjoint key ranges (keys that nest and contain 0x00/0xff, 1-3 versions each, values on both sides of the value threshold, user meta, expiry, delete and discard-earlier bits) are cut into Write calls of random size and stream interleaving, with StreamDone markers for a random subset, written by one or two client goroutines; one to three rounds (Prepare or PrepareIncremental on the empty database, then either PrepareIncremental over the earlier rounds' data or a full Prepare that drops it and rebuilds); the per-stream writer goroutines and table-building goroutines are scheduled actors; compression/encryption/table sizes from the swarm. Oracle after every Flush: the all-versions scan equals exactly the streamed entries (plus the earlier round), Get agrees, a new transaction reads at or above the highest streamed version, ordinary reads/commits afterwards go through the C01/C03 oracles (commit timestamps above every streamed version), and the close / read-only open / re-open cycle of C07/C11/C14 shows the same contents and structure. non-trivial = run with >=1 verified Flush",
		Real: []string{"stream_writer.go, table builder, value log write path, MANIFEST, oracle reset (real code)"}, Stubs: stubsCommon,
	})
	// C04 own writes
	p4 := profT("T-C04")
	p4.WIter = 5
	p4.WSet = 8
	p4.WDel = 3
	p4.TTL = true
	register(&Scenario{Prop: "C04", Family: "T", Level: "exploration", Profile: p4,
		Gen:  func(t *rapid.T) *Case { return GenCase(t, p4) },
		Rule: "as C01 with iterator/Get-heavy read-write transactions; oracle: pending-writes overlay on MVCC-model@readTs for Get and iterators created after the writes (forward, reverse, prefix, seek, SinceTs, AllVersions); other clients compare against the committed model only (unique values make leaks visible). non-trivial = a checked Get/iterator inside a read-write transaction with >=1 pending write",
	})
}
