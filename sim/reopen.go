package sim

import (
	"bytes"
	"crypto/sha1"
	"fmt"
	"os"
	"path/filepath"
	"sort"
	"testing"

	badger "github.com/dgraph-io/badger/v4"
)

// dirHash maps every file under the directories to size+sha1 of its content.
func dirHash(dirs []string) map[string]string {
	out := map[string]string{}
	for _, d := range dirs {
		ents, _ := os.ReadDir(d)
		for _, e := range ents {
			if e.IsDir() {
				continue
			}
			b, err := os.ReadFile(filepath.Join(d, e.Name()))
			if err != nil {
				out[filepath.Join(filepath.Base(d), e.Name())] = "unreadable: " + err.Error()
				continue
			}
			out[filepath.Join(filepath.Base(d), e.Name())] = fmt.Sprintf("%d:%x", len(b), sha1.Sum(b))
		}
	}
	return out
}

func diffDirHash(a, b map[string]string) string {
	var names []string
	for n := range a {
		names = append(names, n)
	}
	for n := range b {
		if _, ok := a[n]; !ok {
			names = append(names, n)
		}
	}
	sort.Strings(names)
	for _, n := range names {
		va, oka := a[n]
		vb, okb := b[n]
		switch {
		case !oka:
			return fmt.Sprintf("file %s was created", n)
		case !okb:
			return fmt.Sprintf("file %s was deleted", n)
		case va != vb:
			return fmt.Sprintf("file %s was modified (%s -> %s)", n, va, vb)
		}
	}
	return ""
}

func sameVisibleStates(a, b *recState) string {
	var keys []string
	for k := range a.visible {
		keys = append(keys, k)
	}
	sort.Strings(keys)
	for _, k := range keys {
		x, y := a.visible[k], b.visible[k]
		if x.found != y.found || !bytes.Equal(x.val, y.val) || x.ver != y.ver || x.um != y.um || x.exp != y.exp {
			return fmt.Sprintf("key %q: before %v, after %v", k, x, y)
		}
	}
	return ""
}

// subsetVersions: every version in b.all must be in a.all with the same content.
func subsetVersions(a, b *recState) string {
	idx := map[string]expItem{}
	for _, g := range a.all {
		idx[fmt.Sprintf("%s\x00%d", g.Key, g.Ver)] = g
	}
	for _, g := range b.all {
		w, ok := idx[fmt.Sprintf("%s\x00%d", g.Key, g.Ver)]
		if !ok {
			return fmt.Sprintf("version %q@%d appeared after re-open but was not there before", g.Key, g.Ver)
		}
		if w.Del != g.Del || (!w.Del && (!bytes.Equal(w.Val, g.Val) || w.UM != g.UM || w.Exp != g.Exp)) {
			return fmt.Sprintf("version %q@%d changed across re-open", g.Key, g.Ver)
		}
	}
	return ""
}

// reopenChecks runs in the closer client with every other client finished:
// dump -> Close -> read-only Open (must not touch any file) -> Close ->
// read-write Open with other compaction settings -> dump -> new commits.
func reopenChecks(r *Run) {
	if r.c.Cfg.InMemory || r.c.Cfg.Managed {
		return
	}
	r.mu.Lock()
	keys := r.model.AllKeys()
	r.mu.Unlock()
	dirs := uniqueDirs(r.dir, r.vdir)
	st1, err := dumpDB(r.db, keys)
	if err != nil {
		r.violate([]string{"C07", "C01"}, "dump-before-close", "%v", err)
		return
	}
	r.setPhase("close")
	if err := r.db.Close(); err != nil {
		r.violate([]string{"C07", "C38"}, "close-error", "Close returned %v", err)
		return
	}
	r.setPhase("")
	r.db = nil
	r.lastAllocTs = 0 // timestamps restart from the stored maximum in a new session (C11's domain)
	r.probe("reopen_cycles")
	// ---- read-only open
	h1 := dirHash(dirs)
	cfg := r.c.Cfg
	opt := BadgerOptions(&cfg, r.dir, r.vdir)
	opt.ReadOnly = true
	r.setPhase("open")
	db2, err := badger.Open(opt)
	r.setPhase("")
	if err != nil {
		r.violate([]string{"C07"}, "readonly-open-failed", "read-only Open after a clean Close failed: %v", firstLine(err.Error()))
		r.reopenRW(cfg, nil, keys)
		return
	}
	st2, err := dumpDB(db2, keys)
	cerr := db2.Close()
	if err != nil || cerr != nil {
		r.violate([]string{"C07"}, "readonly-read-failed", "reading through a read-only DB failed: %v / close: %v", err, cerr)
		r.reopenRW(cfg, nil, keys)
		return
	}
	if d := diffDirHash(h1, dirHash(dirs)); d != "" {
		r.violate([]string{"C07"}, "readonly-open-modified-files", "opening read-only and reading changed the directory: %s", d)
		r.reopenRW(cfg, nil, keys)
		return
	}
	if d := sameVisibleStates(st1, st2); d != "" {
		r.violate([]string{"C07"}, "state-changed-across-reopen", "read-only re-open shows a different visible state: %s", d)
		r.reopenRW(cfg, nil, keys)
		return
	}
	if d := subsetVersions(st1, st2); d != "" {
		r.violate([]string{"C07"}, "versions-changed-across-reopen", "%s", d)
		r.reopenRW(cfg, nil, keys)
		return
	}
	r.stats.Checks += 3
	r.reopenRW(cfg, st1, keys)
}

// reopenRW re-opens read-write with different compaction settings, compares
// with st1 (when given) and leaves the DB open in r.db for the final Close.
func (r *Run) reopenRW(cfg Config, st1 *recState, keys []string) {
	cfg3 := cfg
	if cfg3.NumCompactors == 0 {
		cfg3.NumCompactors = 2
		cfg3.L0Stall = cfg3.L0Tables + 5
	} else {
		cfg3.NumCompactors = 0
		cfg3.L0Stall = 100000
	}
	cfg3.BaseTableSize = cfg.BaseTableSize * 2
	cfg3.CompactL0OnClose = !cfg.CompactL0OnClose
	opt := BadgerOptions(&cfg3, r.dir, r.vdir)
	r.setPhase("open")
	db3, err := badger.Open(opt)
	r.setPhase("")
	if err != nil {
		if st1 != nil {
			r.violate([]string{"C07"}, "reopen-failed", "read-write Open with other compaction settings failed: %v", firstLine(err.Error()))
		}
		// fall back to the original settings so that the run can be torn down
		opt = BadgerOptions(&cfg, r.dir, r.vdir)
		db3, err = badger.Open(opt)
		if err != nil {
			r.harness = "cannot re-open for tear-down: " + err.Error()
			return
		}
	}
	r.db = db3
	if st1 == nil || r.aborted() {
		return
	}
	st3, err := dumpDB(db3, keys)
	if err != nil {
		r.violate([]string{"C07"}, "read-after-reopen", "%v", err)
		return
	}
	if d := sameVisibleStates(st1, st3); d != "" {
		r.violate([]string{"C07"}, "state-changed-across-reopen", "re-open with other compaction settings shows a different visible state: %s", d)
		return
	}
	if d := subsetVersions(st1, st3); d != "" {
		r.violate([]string{"C07"}, "versions-changed-across-reopen", "%s", d)
		return
	}
	// the visible state must also still be the model's
	r.mu.Lock()
	m := r.model
	r.mu.Unlock()
	if d := sameVisible(m, st3, keys, now()); d != "" {
		r.violate([]string{"C07", "C01"}, "state-after-reopen-vs-model", "%s", d)
		return
	}
	if msg := checkStructure(db3, r.dir); msg != "" && cfg3.NumCompactors == 0 {
		r.violate([]string{"C14"}, "structure-after-reopen", "%s", msg)
		return
	} else if msg != "" {
		// with live compactors a table may be mid-creation; only the level shape is stable
		if !bytes.Contains([]byte(msg), []byte("exists on disk")) {
			r.violate([]string{"C14"}, "structure-after-reopen", "%s", msg)
			return
		}
	}
	// C11: new commits get timestamps above every stored version
	maxVer := st3.maxVer
	probeKeys := [][]byte{[]byte("zz-new-key-after-reopen")}
	if len(keys) > 0 {
		probeKeys = append(probeKeys, []byte(keys[0]))
	}
	for i, pk := range probeKeys {
		pv := []byte(fmt.Sprintf("<reopen-probe-%d>", i))
		w := WriteRec{Key: string(pk), Val: pv}
		cl := &clientState{id: 98}
		r.mu.Lock()
		r.byGid[goid()] = cl
		r.mu.Unlock()
		txn := db3.NewTransaction(true)
		_ = txn.Set(pk, pv)
		pc := &pendingCommit{opIdx: i, readTs: txn.ReadTs(), writes: []WriteRec{w}}
		cl.cur = pc
		err := txn.Commit()
		cl.cur = nil
		r.mu.Lock()
		delete(r.byGid, goid())
		r.mu.Unlock()
		if err != nil {
			r.violate([]string{"C11", "C07"}, "commit-after-reopen", "commit after re-open failed: %v", err)
			return
		}
		var ver uint64
		var got []byte
		err = db3.View(func(txn *badger.Txn) error {
			item, err := txn.Get(pk)
			if err != nil {
				return err
			}
			ver = item.Version()
			got, err = item.ValueCopy(nil)
			return err
		})
		if err != nil || !bytes.Equal(got, pv) {
			r.violate([]string{"C11"}, "stale-after-reopen", "write after re-open is not visible: err=%v got=%s", err, short(got))
			return
		}
		if ver <= maxVer {
			r.violate([]string{"C11"}, "timestamp-not-above-stored", "commit after re-open got version %d but version %d is already stored", ver, maxVer)
			return
		}
	}
	r.stats.Checks += 4
	r.probe("reopen_rw_verified")
	// one more cycle: this session's Close (with CompactL0OnClose flipped, i.e. in half
	// of the cases an L0 compaction over the tables as this Open ordered them) and the
	// next Open must still show the model's state
	r.setPhase("close")
	err = db3.Close()
	r.setPhase("")
	if err != nil {
		r.db = nil
		r.violate([]string{"C07", "C38"}, "close-error", "Close of the re-opened database returned %v", err)
		r.reopenPlain(cfg3)
		return
	}
	r.db = nil
	r.lastAllocTs = 0
	if !r.reopenPlain(cfg3) {
		return
	}
	// (the two probe commits above are not part of the model: their keys are compared
	// with the probe values, all other keys with the model)
	probed := map[string]string{}
	for i, pk := range probeKeys {
		probed[string(pk)] = fmt.Sprintf("<reopen-probe-%d>", i)
	}
	var others []string
	for _, k := range keys {
		if _, ok := probed[k]; !ok {
			others = append(others, k)
		}
	}
	allKeys := append(append([]string{}, keys...), "zz-new-key-after-reopen")
	st4, err := dumpDB(r.db, allKeys)
	if err != nil {
		r.violate([]string{"C07"}, "read-after-reopen", "second cycle: %v", err)
		return
	}
	for k, v := range probed {
		if g := st4.visible[k]; !g.found || string(g.val) != v {
			r.violate([]string{"C07", "C12"}, "state-after-second-reopen-vs-model", "after the second close/re-open cycle key %q (written after the first re-open with value %s) reads %v", k, v, g)
			return
		}
	}
	r.mu.Lock()
	m = r.model
	r.mu.Unlock()
	if d := sameVisible(m, st4, others, now()); d != "" {
		r.violate([]string{"C07", "C12"}, "state-after-second-reopen-vs-model", "after the second close/re-open cycle (CompactL0OnClose=%v in the closed session): %s", cfg3.CompactL0OnClose, d)
		return
	}
	r.probe("reopen_second_cycle_verified")
}

// reopenPlain opens the database with the given settings into r.db (for tear-down too).
func (r *Run) reopenPlain(cfg Config) bool {
	opt := BadgerOptions(&cfg, r.dir, r.vdir)
	r.setPhase("open")
	db, err := badger.Open(opt)
	r.setPhase("")
	if err != nil {
		if r.viol == nil {
			r.violate([]string{"C07"}, "reopen-failed", "Open after a clean Close failed: %v", firstLine(err.Error()))
		}
		r.harness = ""
		return false
	}
	r.db = db
	return true
}

// ExecuteReopen = Execute + the close/re-open cycle before the final Close.
func ExecuteReopen(t *testing.T, c *Case, prof *Profile, keepHist bool) Outcome {
	return executeWith(t, c, prof, keepHist, func(r *Run) { r.extra = reopenChecks }, nil)
}
