package sim

import (
	"bytes"
	"fmt"
	"math/rand"
	"sort"
	"strings"
	"sync"
	"testing"
	"testing/synctest"
	"time"

	"github.com/anishathalye/porcupine"
	"github.com/dgraph-io/badger/v4/skl"
	"github.com/dgraph-io/badger/v4/vhook"
	"github.com/dgraph-io/badger/v4/y"
	"pgregory.net/rapid"
)

// ---- C22: the memtable skiplist as a sorted map under concurrency ----

type sklIn struct {
	put bool
	ts  uint64
	val string
}
type sklOut struct {
	found bool
	ver   uint64
	val   string
}

// per-user-key model: versions -> value; Get(ts) = newest version <= ts.
var sklModel = porcupine.Model{
	Init: func() interface{} { return "" },
	Step: func(state, input, output interface{}) (bool, interface{}) {
		st := decodeSklState(state.(string))
		in := input.(sklIn)
		if in.put {
			st[in.ts] = in.val
			return true, encodeSklState(st)
		}
		out := output.(sklOut)
		var best uint64
		have := false
		for ts := range st {
			if ts <= in.ts && (!have || ts > best) {
				best, have = ts, true
			}
		}
		if !have {
			return !out.found, state
		}
		return out.found && out.ver == best && out.val == st[best], state
	},
	Equal: func(a, b interface{}) bool { return a.(string) == b.(string) },
}

func decodeSklState(s string) map[uint64]string {
	m := map[uint64]string{}
	if s == "" {
		return m
	}
	for _, p := range strings.Split(s, ";") {
		var ts uint64
		var v string
		fmt.Sscanf(p, "%d=%s", &ts, &v)
		m[ts] = v
	}
	return m
}

func encodeSklState(m map[uint64]string) string {
	keys := make([]uint64, 0, len(m))
	for k := range m {
		keys = append(keys, k)
	}
	sort.Slice(keys, func(i, j int) bool { return keys[i] < keys[j] })
	var sb strings.Builder
	for i, k := range keys {
		if i > 0 {
			sb.WriteByte(';')
		}
		fmt.Fprintf(&sb, "%d=%s", k, m[k])
	}
	return sb.String()
}

func genSklCase(t *rapid.T) *Case {
	c := &Case{Scenario: "S-C22"}
	c.Keys = genKeys(t, 6)
	nw := rapid.IntRange(2, 4).Draw(t, "writers")
	nr := rapid.IntRange(1, 3).Draw(t, "readers")
	for w := 0; w < nw; w++ {
		n := rapid.IntRange(1, 12).Draw(t, "nputs")
		var ops []Op
		for i := 0; i < n; i++ {
			ops = append(ops, Op{K: "put", Key: rapid.IntRange(0, len(c.Keys)-1).Draw(t, "key"), Ts: uint64(rapid.IntRange(1, 4).Draw(t, "ts")), Sz: rapid.SampledFrom([]int{0, 12, 40}).Draw(t, "sz")})
		}
		c.Clients = append(c.Clients, ops)
	}
	for r := 0; r < nr; r++ {
		n := rapid.IntRange(1, 10).Draw(t, "nreads")
		var ops []Op
		for i := 0; i < n; i++ {
			if rapid.IntRange(0, 2).Draw(t, "rk") == 0 {
				ops = append(ops, Op{K: "siter", RW: rapid.Bool().Draw(t, "rev")})
			} else {
				ops = append(ops, Op{K: "sget", Key: rapid.IntRange(0, len(c.Keys)-1).Draw(t, "key"), Ts: uint64(rapid.IntRange(1, 5).Draw(t, "ts"))})
			}
		}
		c.Clients = append(c.Clients, ops)
	}
	c.Sched = genSched(t, 300)
	c.Cfg.SkipSeed = rapid.Uint64Range(1, 1<<20).Draw(t, "skip_seed")
	c.Cfg.Groups = []string{"client", "skl"}
	return c
}

// ExecuteSkiplist runs one skiplist case.
func ExecuteSkiplist(t *testing.T, c *Case, keep bool) (out Outcome) {
	out.Stats.Probes = map[string]uint64{}
	out.Stats.Known = map[string]uint64{}
	doneCh := make(chan struct{})
	go func() {
		select {
		case <-doneCh:
		case <-time.After(120 * time.Second):
			dumpAllStacks()
			panic("WATCHDOG skiplist run stuck")
		}
	}()
	defer close(doneCh)
	var viol *Violation
	func() {
		defer func() {
			if p := recover(); p != nil {
				out.Harness = fmt.Sprintf("panic around bubble: %v", p)
			}
		}()
		synctest.Test(t, func(t *testing.T) {
			viol = runSkiplist(c, keep, &out)
		})
	}()
	Uninstall()
	out.Viol = viol
	return
}

func runSkiplist(c *Case, keep bool, out *Outcome) *Violation {
	e := NewEngine(c.Sched, c.Cfg.Groups)
	e.KeepTrace = keep && TraceWanted
	e.Install()
	hr := rand.New(rand.NewSource(int64(c.Cfg.SkipSeed)))
	var hmu sync.Mutex
	vhook.SkipHeightFn = func() (int, bool) {
		hmu.Lock()
		defer hmu.Unlock()
		h := 1
		for h < 12 && hr.Intn(3) == 0 {
			h++
		}
		return h, true
	}
	s := skl.NewSkiplist(1 << 20)
	var mu sync.Mutex
	var viol *Violation
	fail := func(rule, format string, args ...interface{}) {
		mu.Lock()
		if viol == nil {
			viol = &Violation{Props: []string{"C22"}, Rule: rule, Msg: fmt.Sprintf(format, args...), Step: e.Steps}
		}
		mu.Unlock()
	}
	type putRec struct {
		ikey     string
		val      string
		callStep uint64
		retStep  uint64
		returned bool
	}
	var puts []*putRec
	var ops []porcupine.Operation
	nDone := 0
	ncl := len(c.Clients)
	e.Activate()
	for ci, script := range c.Clients {
		ci, script := ci, script
		go func() {
			e.Register(fmt.Sprintf("c%d", ci))
			defer func() {
				mu.Lock()
				nDone++
				mu.Unlock()
			}()
			for oi, op := range script {
				e.Point("client.op")
				mu.Lock()
				stop := viol != nil
				mu.Unlock()
				if stop {
					return
				}
				ukey := c.KeyBytes(op.Key)
				switch op.K {
				case "put":
					val := string(MakeValue(ci, oi, 0, op.Sz))
					ik := y.KeyWithTs(ukey, op.Ts)
					pr := &putRec{ikey: string(ik), val: val, callStep: e.Steps}
					mu.Lock()
					puts = append(puts, pr)
					call := int64(e.Steps)*2 + 1
					mu.Unlock()
					s.Put(ik, y.ValueStruct{Value: []byte(val), UserMeta: byte(oi)})
					mu.Lock()
					pr.returned = true
					pr.retStep = e.Steps
					ops = append(ops, porcupine.Operation{ClientId: ci, Input: sklIn{put: true, ts: op.Ts, val: val}, Call: call, Output: sklOut{}, Return: int64(e.Steps)*2 + 2})
					mu.Unlock()
					_ = ukey
				case "sget":
					ik := y.KeyWithTs(ukey, op.Ts)
					mu.Lock()
					call := int64(e.Steps)*2 + 1
					mu.Unlock()
					vs := s.Get(ik)
					o := sklOut{}
					if vs.Value != nil || vs.Meta != 0 || vs.Version != 0 {
						o = sklOut{found: true, ver: vs.Version, val: string(vs.Value)}
					}
					mu.Lock()
					ops = append(ops, porcupine.Operation{ClientId: ci, Input: sklIn{ts: op.Ts}, Call: call, Output: o, Return: int64(e.Steps)*2 + 2})
					// porcupine partitions by key below: remember the key in the client id space
					ops[len(ops)-1].Input = sklInKey{sklIn{ts: op.Ts}, string(ukey)}
					mu.Unlock()
					out.Stats.Checks++
				case "siter":
					// everything whose Put had returned before the iteration began must be seen
					mu.Lock()
					must := map[string]bool{}
					for _, p := range puts {
						if p.returned {
							must[p.ikey] = true
						}
					}
					mu.Unlock()
					it := s.NewUniIterator(op.RW)
					var prev []byte
					seen := map[string]bool{}
					n := 0
					for it.Rewind(); it.Valid(); it.Next() {
						k := append([]byte{}, it.Key()...)
						v := append([]byte{}, it.Value().Value...)
						if prev != nil {
							cmp := y.CompareKeys(prev, k)
							if (!op.RW && cmp >= 0) || (op.RW && cmp <= 0) {
								fail("iteration-order", "c%d iteration (reverse=%v) returned %q@%d after %q@%d", ci, op.RW, y.ParseKey(k), y.ParseTs(k), y.ParseKey(prev), y.ParseTs(prev))
								it.Close()
								return
							}
						}
						prev = k
						seen[string(k)] = true
						// the value must be one that some Put wrote for exactly this key
						mu.Lock()
						ok := false
						for _, p := range puts {
							if p.ikey == string(k) && p.val == string(v) {
								ok = true
							}
						}
						mu.Unlock()
						if !ok {
							fail("iteration-torn-value", "c%d iteration returned %q@%d with value %s that no Put wrote for this key", ci, y.ParseKey(k), y.ParseTs(k), short(v))
							it.Close()
							return
						}
						n++
						if n%3 == 0 {
							e.Point("client.iter") // let writers interleave with the walk
						}
					}
					it.Close()
					mustKeys := make([]string, 0, len(must))
					for k := range must {
						mustKeys = append(mustKeys, k)
					}
					sort.Strings(mustKeys)
					for _, k := range mustKeys {
						if !seen[k] {
							fail("iteration-missed-key", "c%d iteration (reverse=%v) did not return %q@%d whose Put had returned before it began", ci, op.RW, y.ParseKey([]byte(k)), y.ParseTs([]byte(k)))
							return
						}
					}
					out.Stats.Checks++
					if n > 1 {
						out.Stats.NonTrivial = true
					}
				}
			}
		}()
	}
	// puts need their key for partitioning too
	res := e.Run(func() bool {
		mu.Lock()
		defer mu.Unlock()
		return nDone == ncl
	}, 100000)
	e.Stop()
	out.Stats.Steps = e.Steps
	out.Stats.Decisions = e.Decisions
	out.Stats.Switches = e.Switches
	out.Stats.Digest = e.TraceDigest()
	out.Trace = e.TraceLog
	if res.Deadlock || res.StepBudget {
		return &Violation{Props: []string{"C22", "C38"}, Rule: "skiplist-stuck", Msg: "skiplist operations did not finish: " + res.Dump}
	}
	if viol != nil {
		return viol
	}
	// final content = sorted map with one of the writers' values per key
	final := map[string]string{}
	it := s.NewUniIterator(false)
	for it.Rewind(); it.Valid(); it.Next() {
		final[string(it.Key())] = string(it.Value().Value)
	}
	it.Close()
	byKey := map[string][]*putRec{}
	for _, p := range puts {
		byKey[p.ikey] = append(byKey[p.ikey], p)
	}
	ikeys := make([]string, 0, len(byKey))
	for k := range byKey {
		ikeys = append(ikeys, k)
	}
	sort.Strings(ikeys)
	for _, k := range ikeys {
		ps := byKey[k]
		v, ok := final[k]
		if !ok {
			return &Violation{Props: []string{"C22"}, Rule: "final-missing-key", Msg: fmt.Sprintf("key %q@%d was put but is not in the skiplist", y.ParseKey([]byte(k)), y.ParseTs([]byte(k)))}
		}
		// the surviving value must come from a put that is not strictly before another put of the key
		okv := false
		for _, p := range ps {
			if p.val != v {
				continue
			}
			later := false
			for _, q := range ps {
				if q != p && q.callStep > p.retStep {
					later = true
				}
			}
			if !later {
				okv = true
			}
		}
		if !okv {
			return &Violation{Props: []string{"C22"}, Rule: "final-lost-update", Msg: fmt.Sprintf("key %q@%d ends with value %s although a later put of the key had begun after that put returned", y.ParseKey([]byte(k)), y.ParseTs([]byte(k)), short([]byte(v)))}
		}
	}
	if len(final) != len(byKey) {
		return &Violation{Props: []string{"C22"}, Rule: "final-extra-key", Msg: fmt.Sprintf("skiplist holds %d keys, %d were put", len(final), len(byKey))}
	}
	// linearizability of Put/Get per user key
	var all []porcupine.Operation
	for _, o := range ops {
		all = append(all, o)
	}
	// attach user keys to puts
	pi := 0
	for i := range all {
		if in, ok := all[i].Input.(sklIn); ok && in.put {
			// find matching put record by value
			for _, p := range puts {
				if p.val == in.val {
					all[i].Input = sklInKey{in, string(y.ParseKey([]byte(p.ikey)))}
				}
			}
			pi++
		}
	}
	model := porcupine.Model{
		Init: sklModel.Init,
		Step: func(state, input, output interface{}) (bool, interface{}) {
			return sklModel.Step(state, input.(sklInKey).sklIn, output)
		},
		Equal: sklModel.Equal,
		Partition: func(history []porcupine.Operation) [][]porcupine.Operation {
			m := map[string][]porcupine.Operation{}
			var keys []string
			for _, o := range history {
				k := o.Input.(sklInKey).key
				if _, ok := m[k]; !ok {
					keys = append(keys, k)
				}
				m[k] = append(m[k], o)
			}
			sort.Strings(keys)
			var outp [][]porcupine.Operation
			for _, k := range keys {
				outp = append(outp, m[k])
			}
			return outp
		},
	}
	switch porcupine.CheckOperationsTimeout(model, all, 20*time.Second) {
	case porcupine.Illegal:
		var sb strings.Builder
		for _, o := range all {
			in := o.Input.(sklInKey)
			fmt.Fprintf(&sb, "[c%d %q put=%v ts=%d val=%s -> %+v @%d..%d] ", o.ClientId, in.key, in.put, in.ts, short([]byte(in.val)), o.Output, o.Call, o.Return)
		}
		return &Violation{Props: []string{"C22"}, Rule: "not-linearizable", Msg: "the Put/Get history is not linearizable against a sorted map: " + sb.String()}
	case porcupine.Unknown:
		out.Stats.Probes["porcupine_inconclusive"]++
	default:
		out.Stats.Probes["porcupine_histories_ok"]++
	}
	_ = bytes.Equal
	return nil
}

type sklInKey struct {
	sklIn
	key string
}
