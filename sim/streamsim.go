package sim

import (
	"bytes"
	"context"
	"errors"
	"fmt"
	"os"
	"path/filepath"
	"sort"
	"strings"
	"sync"

	badger "github.com/dgraph-io/badger/v4"
	"github.com/dgraph-io/badger/v4/pb"
	"github.com/dgraph-io/ristretto/v2/z"
)

func init() {
	extraOps["stream"] = opStream
	extraOps["backup"] = opBackup
}

type backupRec struct {
	data   []byte
	since  uint64
	maxVer uint64
	lowTs  uint64 // every commit <= lowTs was applied before the backup began
	highTs uint64 // highest commit ts allocated when the backup returned
}

// streamList is the model of Stream.ToList / Backup's KeyToList at snapshot r.
func (r *Run) modelList(key string, rts, since, tnow uint64, backup bool) []expItem {
	var out []expItem
	n := r.c.Cfg.NumVersionsToKeep
	for _, v := range r.model.VersionsAtOrBelow(key, rts) {
		if since > 0 && v.Ts <= since {
			continue
		}
		dead := v.Del || expired(v.Exp, tnow)
		if !backup && dead {
			break
		}
		out = append(out, expItem{Key: key, Ver: v.Ts, Val: v.Val, UM: v.UM, Exp: v.Exp, Del: dead, Disc: v.Disc})
		if dead || v.Disc {
			break
		}
		if !backup && n == 1 {
			break
		}
	}
	return out
}

// ---------- Stream (C25) ----------

func opStream(r *Run, cl *clientState, idx int, op *Op) {
	st := r.db.NewStream()
	st.NumGo = op.N
	if st.NumGo < 1 {
		st.NumGo = 1
	}
	var prefix []byte
	if op.Key >= 0 && op.S%3 == 1 {
		k := r.key(op.Key)
		prefix = k[:1]
		st.Prefix = prefix
	}
	chooseOdd := op.S%3 == 2
	if chooseOdd {
		st.ChooseKey = func(item *badger.Item) bool { return len(item.Key())%2 == 1 }
	}
	st.LogPrefix = "sim"
	var mu sync.Mutex
	inSend := 0
	overlap := false
	var got []*pb.KV
	st.Send = func(buf *z.Buffer) error {
		mu.Lock()
		inSend++
		if inSend > 1 {
			overlap = true
		}
		mu.Unlock()
		list, err := badger.BufferToKVList(buf)
		if err == nil {
			mu.Lock()
			for _, kv := range list.Kv {
				if !kv.StreamDone {
					got = append(got, kv)
				}
			}
			mu.Unlock()
		}
		r.e.Point("client.send") // a second Send entering now would be caught
		mu.Lock()
		inSend--
		mu.Unlock()
		return err
	}
	r.mu.Lock()
	low := r.maxAppliedTs
	if r.lastAllocTs < low {
		low = r.lastAllocTs
	}
	lowAlloc := r.lastAllocTs
	r.mu.Unlock()
	_ = lowAlloc
	err := st.Orchestrate(context.Background())
	r.mu.Lock()
	high := r.lastAllocTs
	r.mu.Unlock()
	tnow := now()
	r.stats.Checks++
	r.logf("c%d stream numGo=%d prefix=%q choose=%v -> %d KVs err=%v (snapshot window %d..%d)", cl.id, st.NumGo, prefix, chooseOdd, len(got), err, low, high)
	if err != nil {
		r.violate([]string{"C25", "C38"}, "stream-error", "c%d Stream.Orchestrate failed: %v", cl.id, err)
		return
	}
	if overlap {
		r.violate([]string{"C25"}, "stream-send-concurrent", "c%d Stream called Send while another Send was still running", cl.id)
		return
	}
	if len(r.drops) > 0 {
		return
	}
	// group what was emitted
	type ident struct {
		key string
		ver uint64
	}
	seen := map[ident]bool{}
	byKey := map[string][]*pb.KV{}
	for _, kv := range got {
		id := ident{string(kv.Key), kv.Version}
		if seen[id] {
			r.violate([]string{"C25"}, "stream-duplicate", "c%d Stream emitted %q@%d twice", cl.id, kv.Key, kv.Version)
			return
		}
		seen[id] = true
		byKey[string(kv.Key)] = append(byKey[string(kv.Key)], kv)
	}
	// there must be ONE snapshot timestamp in [low, high] that explains everything
	r.mu.Lock()
	defer r.mu.Unlock()
	keys := r.model.AllKeys()
	chosen := func(k string) bool {
		if len(prefix) > 0 && !bytes.HasPrefix([]byte(k), prefix) {
			return false
		}
		if chooseOdd && len(k)%2 != 1 {
			return false
		}
		return true
	}
	var firstDiff string
	for rts := low; rts <= high; rts++ {
		diff := ""
		for _, k := range keys {
			var want []expItem
			if chosen(k) {
				want = r.modelList(k, rts, 0, tnow, false)
			}
			have := byKey[k]
			if len(want) != len(have) {
				diff = fmt.Sprintf("at snapshot %d key %q: model lists %d versions, stream emitted %d", rts, k, len(want), len(have))
				break
			}
			for i := range want {
				um := byte(0)
				if len(have[i].UserMeta) > 0 {
					um = have[i].UserMeta[0]
				}
				if want[i].Ver != have[i].Version || !bytes.Equal(want[i].Val, have[i].Value) || want[i].UM != um || want[i].Exp != have[i].ExpiresAt {
					diff = fmt.Sprintf("at snapshot %d key %q: model has %q@%d, stream emitted @%d value %s", rts, k, short(want[i].Val), want[i].Ver, have[i].Version, short(have[i].Value))
					break
				}
			}
			if diff != "" {
				break
			}
		}
		if diff == "" {
			for k := range byKey {
				if _, ok := r.model.Keys[k]; !ok {
					diff = fmt.Sprintf("stream emitted unknown key %q", k)
				}
			}
		}
		if diff == "" {
			r.probeLocked("stream_runs_verified")
			if high > low {
				r.probeLocked("stream_with_concurrent_commits")
			}
			return
		}
		if firstDiff == "" {
			firstDiff = diff
		}
	}
	r.violateLocked([]string{"C25"}, "stream-not-one-snapshot", "c%d Stream run (numGo=%d prefix=%q) emitted %d KVs that match no single snapshot timestamp in [%d,%d]; e.g. %s", cl.id, st.NumGo, prefix, len(got), low, high, firstDiff)
}

// ---------- Backup / Load (C24) ----------

func opBackup(r *Run, cl *clientState, idx int, op *Op) {
	var since uint64
	if n := len(r.backups); n > 0 {
		since = r.backups[n-1].maxVer
	}
	r.mu.Lock()
	low := r.maxAppliedTs
	if r.lastAllocTs < low || len(r.inFlight) > 0 {
		// commits in flight: only what is applied for sure counts as "before"
		for ts := range r.inFlight {
			if ts-1 < low {
				low = ts - 1
			}
		}
	}
	r.mu.Unlock()
	var buf bytes.Buffer
	maxVer, err := r.db.Backup(&buf, since)
	r.mu.Lock()
	high := r.lastAllocTs
	r.mu.Unlock()
	r.logf("c%d backup since=%d -> maxVersion=%d bytes=%d err=%v (window %d..%d)", cl.id, since, maxVer, buf.Len(), err, low, high)
	if err != nil {
		r.violate([]string{"C24", "C38"}, "backup-error", "c%d Backup(since=%d) failed: %v", cl.id, since, err)
		return
	}
	if maxVer < since {
		maxVer = since
	}
	r.backups = append(r.backups, &backupRec{data: buf.Bytes(), since: since, maxVer: maxVer, lowTs: low, highTs: high})
	r.probe("backups_taken")
}

// restoreCheck (C24) loads the whole backup chain into a fresh database and
// compares it with the source at the last backup's snapshot.
func restoreCheck(r *Run) {
	if len(r.backups) == 0 || len(r.drops) > 0 {
		return
	}
	dir2 := filepath.Join(filepath.Dir(r.dir), "restore")
	os.MkdirAll(dir2, 0o755)
	cfg := r.c.Cfg
	cfg.NumCompactors = 0
	cfg.L0Stall = 100000
	// The restore target gets a 4x larger memtable: KVLoader sizes entries with the
	// 8-byte timestamp in the key, so an entry that just fitted a transaction of the
	// source can exceed the batch limit of an identically configured target and Load
	// fails with ErrTxnTooBig (size arithmetic, C28's subject, observed; DESIGN.md 9.4).
	cfg.MemTableSize *= 16
	cfg.VLogPercentile = 0 // a static value threshold: with the dynamic one the loader and the write path can size the same entry differently
	opt := BadgerOptions(&cfg, dir2, dir2)
	db2, err := badger.Open(opt)
	if err != nil {
		r.harness = "open restore db: " + err.Error()
		return
	}
	defer db2.Close()
	for i, b := range r.backups {
		if err := db2.Load(bytes.NewReader(b.data), 4); err != nil {
			if errors.Is(err, badger.ErrTxnTooBig) || strings.Contains(err.Error(), badger.ErrTxnTooBig.Error()) {
				// size arithmetic of the loader vs the write path (C28's subject, DESIGN.md 9.4): not judged
				r.probe("restore_not_judged_load_txn_too_big")
				return
			}
			r.violate([]string{"C24"}, "load-error", "Load of backup %d (since=%d) failed: %v", i, b.since, err)
			return
		}
	}
	last := r.backups[len(r.backups)-1]
	r.mu.Lock()
	keys := r.model.AllKeys()
	r.mu.Unlock()
	st, err := dumpDB(db2, keys)
	if err != nil {
		r.violate([]string{"C24"}, "read-restored", "%v", err)
		return
	}
	tnow := now()
	r.mu.Lock()
	defer r.mu.Unlock()
	var firstDiff string
	for rts := last.lowTs; rts <= last.highTs; rts++ {
		diff := ""
		for _, k := range keys {
			want := r.model.Read(k, rts, tnow)
			got := st.visible[k]
			if (want != nil) != got.found || (want != nil && (!bytes.Equal(want.Val, got.val) || want.UM != got.um || want.Exp != got.exp || want.Ts != got.ver)) {
				diff = fmt.Sprintf("as of ts %d key %q: source has %s, restored database has %v", rts, k, want, got)
				break
			}
		}
		if diff == "" {
			r.probeLocked("restores_verified")
			if len(r.backups) > 1 {
				r.probeLocked("incremental_chains_verified")
			}
			return
		}
		if firstDiff == "" {
			firstDiff = diff
		}
	}
	var chain []string
	for _, b := range r.backups {
		chain = append(chain, fmt.Sprintf("since=%d->%d[%d..%d]", b.since, b.maxVer, b.lowTs, b.highTs))
	}
	sort.Strings(nil)
	r.violateLocked([]string{"C24"}, "restore-differs", "database restored from the backup chain %v equals the source at no snapshot timestamp in [%d,%d]; e.g. %s", chain, last.lowTs, last.highTs, firstDiff)
}

func init() {
	// see third_party/ristretto/z/verif_hook.go: Stream's 32 MiB producer
	// buffers start small and grow on demand under simulation
	z.VerifInitialBufferCap = 64 << 10
}
