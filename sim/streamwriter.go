package sim

import (
	"bytes"
	"fmt"
	"sort"

	badger "github.com/dgraph-io/badger/v4"
	"github.com/dgraph-io/badger/v4/pb"
	"github.com/dgraph-io/ristretto/v2/z"
	"pgregory.net/rapid"
)

// ---------- StreamWriter (C26) ----------
//
// Op kinds: sw_prepare (N=1: PrepareIncremental), sw_write (Sub: one entry per
// KV: S=stream id, Key, Ts=version, Sz, UM, TTL, N&1=delete marker, N&2=
// discard-earlier bit; K="done" = StreamDone marker), sw_flush. Client 0 owns
// Prepare and Flush; a second client may Write its own streams concurrently.

type swState struct {
	sw       *badger.StreamWriter
	round    int
	pending  []WriteRec // entries handed to Write in this round
	writers  int        // sw_write ops still to run in this round (all clients)
	prepared bool
	maxVer   uint64
}

func init() {
	extraOps["sw_prepare"] = opSWPrepare
	extraOps["sw_write"] = opSWWrite
	extraOps["sw_flush"] = opSWFlush
}

func opSWPrepare(r *Run, cl *clientState, idx int, op *Op) {
	st := r.swst
	if st == nil {
		st = &swState{}
		r.swst = st
	}
	st.round++
	st.pending = nil
	st.sw = r.db.NewStreamWriter()
	// how many sw_write ops belong to this round (until the next sw_flush of client 0)
	n := 0
	for ci, ops := range r.c.Clients {
		round := 0
		for _, o := range ops {
			if ci == 0 && o.K == "sw_prepare" {
				round++
			}
			if o.K == "sw_write" {
				rr := round
				if ci != 0 {
					rr = o.F2Round()
				}
				if rr == st.round {
					n++
				}
			}
		}
	}
	r.mu.Lock()
	st.writers = n
	r.mu.Unlock()
	if op.N == 1 {
		r.setPhase("sw_prepare")
		err := st.sw.PrepareIncremental()
		r.setPhase("")
		r.logf("c%d StreamWriter.PrepareIncremental -> %v", cl.id, err)
		if err != nil {
			r.violate([]string{"C26"}, "sw-prepare-error", "PrepareIncremental failed: %v", err)
			return
		}
		r.mu.Lock()
		r.drops = append(r.drops, &dropRec{startStep: r.e.Steps}) // writes are blocked from here on
		r.mu.Unlock()
	} else {
		r.doDrop(cl, &dropRec{all: true}, func() error { return st.sw.Prepare() })
		r.logf("c%d StreamWriter.Prepare done", cl.id)
	}
	r.mu.Lock()
	st.prepared = true
	r.mu.Unlock()
	r.probe("sw_prepared")
}

// F2Round: sw_write ops of the second client carry their round in F.
func (o *Op) F2Round() int { return int(o.F) }

func opSWWrite(r *Run, cl *clientState, idx int, op *Op) {
	// wait until client 0 has prepared the round this write belongs to
	for i := 0; ; i++ {
		r.mu.Lock()
		st := r.swst
		ok := st != nil && st.prepared && (cl.id == 0 || st.round == op.F2Round())
		r.mu.Unlock()
		if ok {
			break
		}
		if i > 20000 || r.viol != nil {
			return
		}
		r.e.Point("client.poll")
	}
	st := r.swst
	buf := z.NewBuffer(1<<12, "sim.sw")
	defer func() { _ = buf.Release() }()
	var recs []WriteRec
	for si, so := range op.Sub {
		kv := &pb.KV{StreamId: uint32(so.S)}
		if so.K == "done" {
			kv.StreamDone = true
			badger.KVToBuffer(kv, buf)
			continue
		}
		key := r.key(so.Key)
		w := WriteRec{Key: string(key), Ver: so.Ts, UM: so.UM}
		var meta byte
		if so.N&1 != 0 {
			w.Del = true
			meta |= 1 // bitDelete
		} else {
			w.Val = MakeValue(cl.id, idx, si+1, so.Sz)
		}
		if so.N&2 != 0 {
			w.Disc = true
			meta |= 4 // bitDiscardEarlierVersions
		}
		if so.TTL > 0 {
			w.Exp = now() + uint64(so.TTL)
		}
		kv.Key = key
		kv.Value = w.Val
		kv.Version = so.Ts
		kv.UserMeta = []byte{so.UM}
		kv.Meta = []byte{meta}
		kv.ExpiresAt = w.Exp
		badger.KVToBuffer(kv, buf)
		recs = append(recs, w)
	}
	r.setPhase("sw_write")
	err := st.sw.Write(buf)
	r.setPhase("")
	r.logf("c%d StreamWriter.Write of %d KVs -> %v", cl.id, len(op.Sub), err)
	r.mu.Lock()
	st.pending = append(st.pending, recs...)
	st.writers--
	r.mu.Unlock()
	if err != nil {
		r.violate([]string{"C26"}, "sw-write-error", "c%d StreamWriter.Write failed: %v", cl.id, err)
	}
}

func opSWFlush(r *Run, cl *clientState, idx int, op *Op) {
	st := r.swst
	if st == nil || st.sw == nil {
		return
	}
	// every Write of this round must have returned
	for i := 0; ; i++ {
		r.mu.Lock()
		left := st.writers
		r.mu.Unlock()
		if left <= 0 {
			break
		}
		if i > 20000 || r.viol != nil {
			return
		}
		r.e.Point("client.poll")
	}
	// Flush installs a fresh oracle (no transaction is open: writes are blocked):
	// the watermark invariants start over with the marks the new oracle emits
	r.mu.Lock()
	r.wms = map[string]*wmState{}
	r.swFlushing = true
	r.mu.Unlock()
	r.setPhase("sw_flush")
	err := st.sw.Flush()
	r.setPhase("")
	r.mu.Lock()
	r.swFlushing = false
	r.mu.Unlock()
	r.logf("c%d StreamWriter.Flush -> %v (%d entries)", cl.id, err, len(st.pending))
	if err != nil {
		r.violate([]string{"C26"}, "sw-flush-error", "StreamWriter.Flush failed: %v", err)
		return
	}
	r.mu.Lock()
	st.prepared = false
	// the streamed entries are now part of the database: one synthetic commit
	rec := &CommitRec{Client: -1, OpIdx: idx, Acked: true, TsStep: r.e.Steps, AckStep: r.e.Steps}
	for _, w := range st.pending {
		if w.Ver > st.maxVer {
			st.maxVer = w.Ver
		}
	}
	rec.Ts = st.maxVer
	rec.Writes = append(rec.Writes, st.pending...)
	r.model.AddCommit(rec)
	if st.maxVer > r.maxAckedTs {
		r.maxAckedTs = st.maxVer
	}
	if st.maxVer > r.maxAppliedTs {
		r.maxAppliedTs = st.maxVer
	}
	r.mu.Unlock()
	r.probe("sw_rounds_flushed")
	if st.round > 1 {
		r.probe("sw_incremental_rounds")
	}
	r.stats.Checks++
	r.swVerify("after Flush")
	if r.viol != nil {
		return
	}
	// the next transaction reads everything that was streamed
	txn := r.db.NewTransaction(false)
	rts := txn.ReadTs()
	txn.Discard()
	if rts < st.maxVer {
		r.violate([]string{"C26", "C11"}, "sw-read-ts-below-streamed", "after Flush a new transaction reads at %d, below the highest streamed version %d", rts, st.maxVer)
	}
}

// swVerify compares every version the database holds with the model (exactly:
// no compactor runs in this scenario, so nothing may be missing or extra).
func (r *Run) swVerify(when string) {
	r.mu.Lock()
	keys := r.model.AllKeys()
	r.mu.Unlock()
	st, err := dumpDB(r.db, keys)
	if err != nil {
		r.violate([]string{"C26"}, "sw-read-error", "%s: %v", when, err)
		return
	}
	r.mu.Lock()
	defer r.mu.Unlock()
	tnow := now()
	var want []expItem
	for _, k := range keys {
		vs := r.model.Keys[k]
		for i := len(vs) - 1; i >= 0; i-- {
			v := vs[i]
			if !r.model.live(&v) {
				continue
			}
			e := expItem{Key: k, Ver: v.Ts, UM: v.UM, Exp: v.Exp, Del: v.Del, Disc: v.Disc}
			if !v.Del && !expired(v.Exp, tnow) {
				e.Val = v.Val
			}
			want = append(want, e)
		}
	}
	sort.SliceStable(want, func(i, j int) bool {
		if want[i].Key != want[j].Key {
			return want[i].Key < want[j].Key
		}
		return want[i].Ver > want[j].Ver
	})
	desc := func(e expItem) string {
		return fmt.Sprintf("%q@%d del=%v um=%d exp=%d disc=%v val=%s", e.Key, e.Ver, e.Del, e.UM, e.Exp, e.Disc, short(e.Val))
	}
	n := len(want)
	if len(st.all) < n {
		n = len(st.all)
	}
	for i := 0; i < n; i++ {
		w, g := want[i], st.all[i]
		gdel := g.Del
		if expired(g.Exp, tnow) {
			gdel, g.Val = w.Del, nil // expired entries: only identity and metadata are compared
		}
		if w.Key != g.Key || w.Ver != g.Ver || w.Del != gdel || w.UM != g.UM || w.Exp != g.Exp || w.Disc != g.Disc || (!w.Del && !expired(w.Exp, tnow) && !bytes.Equal(w.Val, g.Val)) {
			r.violateLocked([]string{"C26"}, "sw-contents-differ", "%s: item %d of the all-versions scan is %s, the streamed data says %s", when, i, desc(g), desc(w))
			return
		}
	}
	if len(want) != len(st.all) {
		extra := ""
		if len(st.all) > n {
			extra = "first extra item " + desc(st.all[n])
		} else {
			extra = "first missing item " + desc(want[n])
		}
		r.violateLocked([]string{"C26"}, "sw-contents-differ", "%s: the database holds %d versions, the streamed data has %d; %s", when, len(st.all), len(want), extra)
		return
	}
	// visible state through Get
	for _, k := range keys {
		wv := r.model.Read(k, ^uint64(0), tnow)
		g := st.visible[k]
		if (wv != nil) != g.found || (wv != nil && (!bytes.Equal(wv.Val, g.val) || wv.UM != g.um || wv.Exp != g.exp || wv.Ts != g.ver)) {
			r.violateLocked([]string{"C26"}, "sw-get-differs", "%s: Get(%q) returns %v, the streamed data says %s", when, k, g, wv)
			return
		}
	}
	r.probeLocked("sw_verified")
}

// genSWCase generates a StreamWriter case.
func genSWCase(t *rapid.T, p *Profile) *Case {
	c := GenCase(t, p)
	c.Cfg.InMemory = false
	c.Cfg.Managed = false
	c.Cfg.NumCompactors = 0
	c.Cfg.L0Stall = 100000
	c.Cfg.Prefill = 0
	c.Cfg.NumVersionsToKeep = 1 << 30
	c.Cfg.TableMult = rapid.SampledFrom([]int{1, 1, 2}).Draw(t, "sw_table_mult")
	rounds := rapid.IntRange(1, 3).Draw(t, "sw_rounds")
	two := rapid.IntRange(0, 2).Draw(t, "sw_two_writers") == 0
	// key universe: stream s owns the keys starting with byte 'a'+s
	sfx := []string{"", "\x00", "\x00\x00", "0", "1", "2", "3", "4", "5", "6", "7", "8", "9", "\xff", "\xff\xff", "xxxxxxxxxxxxxxxxxxxxxxxxxxxxxxxxxxxxxxxx"}
	nstreams := rapid.IntRange(1, 4).Draw(t, "sw_streams")
	var keys []string
	idxOf := map[string]int{}
	for s := 0; s < nstreams; s++ {
		for _, x := range sfx {
			k := string([]byte{byte('b' + s)}) + x
			keys = append(keys, k)
		}
	}
	sort.Strings(keys)
	c.Keys = nil
	for i, k := range keys {
		c.Keys = append(c.Keys, HexBytes(k))
		idxOf[k] = i
	}
	var c0, c1 []Op
	for round := 1; round <= rounds; round++ {
		prep := Op{K: "sw_prepare"}
		if round > 1 {
			// over existing data: incremental, or a full Prepare that drops and rebuilds
			if rapid.Bool().Draw(t, "sw_incremental") {
				prep.N = 1
			}
		} else if rapid.IntRange(0, 3).Draw(t, "sw_incr_on_empty") == 0 {
			prep.N = 1
		}
		c0 = append(c0, prep)
		base := uint64(round-1) * 20
		// per stream: its sorted entries
		type ent struct{ op Op }
		perStream := make([][]Op, nstreams)
		for s := 0; s < nstreams; s++ {
			var sk []string
			for _, k := range keys {
				if k[0] == byte('b'+s) && rapid.IntRange(0, 2).Draw(t, "sw_has_key") != 0 {
					sk = append(sk, k)
				}
			}
			for _, k := range sk {
				nv := rapid.IntRange(1, 3).Draw(t, "sw_nv")
				vers := map[uint64]bool{}
				for len(vers) < nv {
					vers[base+uint64(rapid.IntRange(1, 20).Draw(t, "sw_ver"))] = true
				}
				var vl []uint64
				for v := range vers {
					vl = append(vl, v)
				}
				sort.Slice(vl, func(i, j int) bool { return vl[i] > vl[j] })
				for _, v := range vl {
					o := Op{K: "kv", S: s + 1, Key: idxOf[k], Ts: v, Sz: genValSize(t, p, &c.Cfg), UM: byte(rapid.IntRange(0, 255).Draw(t, "sw_um"))}
					switch rapid.IntRange(0, 9).Draw(t, "sw_kind") {
					case 0:
						o.N = 1
					case 1:
						o.N = 2
					case 2:
						o.TTL = rapid.SampledFrom([]int{1, 60, 3600}).Draw(t, "sw_ttl")
					}
					perStream[s] = append(perStream[s], o)
				}
			}
		}
		// which streams the second client writes
		owner := make([]int, nstreams)
		if two && nstreams > 1 {
			for s := range owner {
				owner[s] = rapid.IntRange(0, 1).Draw(t, "sw_owner")
			}
		}
		for who := 0; who < 2; who++ {
			// interleave this client's streams and cut the sequence into Write calls
			pos := make([]int, nstreams)
			var live []int
			for s := 0; s < nstreams; s++ {
				if owner[s] == who && len(perStream[s]) > 0 {
					live = append(live, s)
				}
			}
			var cur []Op
			flush := func() {
				if len(cur) == 0 {
					return
				}
				w := Op{K: "sw_write", Sub: cur, F: float64(round)}
				if who == 0 {
					c0 = append(c0, w)
				} else {
					c1 = append(c1, w)
				}
				cur = nil
			}
			for len(live) > 0 {
				li := rapid.IntRange(0, len(live)-1).Draw(t, "sw_pick")
				s := live[li]
				run := rapid.IntRange(1, 4).Draw(t, "sw_run")
				for ; run > 0 && pos[s] < len(perStream[s]); run-- {
					cur = append(cur, perStream[s][pos[s]])
					pos[s]++
				}
				if pos[s] == len(perStream[s]) {
					if rapid.IntRange(0, 1).Draw(t, "sw_done_marker") == 0 {
						cur = append(cur, Op{K: "done", S: s + 1})
					}
					live = append(live[:li], live[li+1:]...)
				}
				if rapid.IntRange(0, 3).Draw(t, "sw_cut") == 0 {
					flush()
				}
			}
			flush()
		}
		c0 = append(c0, Op{K: "sw_flush"})
	}
	// afterwards: ordinary reads and one commit through the standard oracles
	c0 = append(c0, Op{K: "begin", RW: true})
	for i := 0; i < 4; i++ {
		c0 = append(c0, Op{K: "get", Key: rapid.IntRange(0, len(keys)-1).Draw(t, "sw_get")})
	}
	c0 = append(c0, Op{K: "set", Key: rapid.IntRange(0, len(keys)-1).Draw(t, "sw_set"), Sz: 40}, Op{K: "commit"})
	c0 = append(c0, Op{K: "begin"}, Op{K: "iter", It: &IterSpec{Prefix: -1, Seek: -1, KeyIter: -1, Reseek: -1, AllV: true, Vals: 2}}, Op{K: "discard"})
	c.Clients = [][]Op{c0}
	if len(c1) > 0 {
		c.Clients = append(c.Clients, c1)
	}
	return c
}
